//! C02 — a connection survives an adversarial network without corrupting data.
//!
//! Real client + server over SimNet under virtual time.  Bounded-fault scenarios must complete
//! (handshake + every transfer) before `faults_end + D`; unbounded-fault scenarios (permanent
//! black-out, one-way mute, 100 % corruption from T_b) must resolve every application future
//! before `T_b + idle_client + idle_server + 10 s`.  In both kinds every byte read is checked
//! against the position-derived PRF, every panic anywhere in the process is a violation, and
//! the qlog of both endpoints must never show one packet number accepted twice.
use std::time::Duration;

use serde_json::{Value, json};
use vcore::{Args, Report, Rng};

use crate::{
    oracle,
    scenario::{self, Outcome, Spec},
    sim::FaultProfile,
    world::LogMode,
};

pub const BOUNDED_D_MS: u64 = 60_000;

#[derive(Clone, Debug)]
pub struct Case {
    pub spec: Spec,
    /// Some(faults_end_ms) for bounded, None for unbounded
    pub bounded_until_ms: Option<u64>,
    pub tb_ms: Option<u64>,
    pub label: String,
}

impl Case {
    pub fn to_json(&self) -> Value {
        json!({"kind": "c02", "spec": self.spec.to_json(), "bounded_until_ms": self.bounded_until_ms, "tb_ms": self.tb_ms, "label": self.label})
    }
    pub fn from_json(v: &Value) -> Case {
        Case {
            spec: Spec::from_json(&v["spec"]),
            bounded_until_ms: v["bounded_until_ms"].as_u64(),
            tb_ms: v["tb_ms"].as_u64(),
            label: v["label"].as_str().unwrap_or("").to_string(),
        }
    }
}

pub fn gen_bounded(rng: &mut Rng, seed: u64) -> Case {
    let params = scenario::gen_params(rng);
    let tf = Duration::from_millis(rng.range(500, 8000));
    let c2s = scenario::gen_bounded_faults(rng, tf);
    let s2c = if rng.chance(1, 3) { c2s.clone() } else { scenario::gen_bounded_faults(rng, tf) };
    let window = params.max_data.min(params.stream_data) as usize;
    let max_total = if window < 32 * 1024 { 120_000 } else { 2_500_000 };
    let jobs = scenario::gen_jobs(rng, &params, max_total);
    let total: usize = jobs.iter().map(|j| j.size * if j.kind == scenario::JobKind::BidiEcho { 2 } else { 1 }).sum();
    // allowance: D plus a very conservative transfer time (4 KB/s)
    let deadline = tf + Duration::from_millis(BOUNDED_D_MS) + Duration::from_millis(total as u64 / 4);
    let label = format!("bounded loss {}/{} dup {}/{} jit {}/{} trunc {}/{} flip {}/{} blackouts {}/{}", c2s.loss, s2c.loss, c2s.dup, s2c.dup, c2s.jitter.as_millis(), s2c.jitter.as_millis(), c2s.truncate, s2c.truncate, c2s.flip, s2c.flip, c2s.blackouts.len(), s2c.blackouts.len());
    Case {
        spec: Spec { seed, params, c2s, s2c, jobs, datagrams: vec![], log: LogMode::Capture, with_qlog: true, deadline, clean_close: true },
        bounded_until_ms: Some(tf.as_millis() as u64),
        tb_ms: None,
        label,
    }
}

/// `class`: 0 = quiescent connection (only reads pending when the network dies), 1 = network dies
/// before / during the handshake, 2 = network dies with data in flight
pub fn gen_unbounded(rng: &mut Rng, seed: u64, class: u64) -> Case {
    let mut params = scenario::gen_params(rng);
    params.idle_client_ms = rng.range(5, 15) * 1000;
    params.idle_server_ms = rng.range(5, 15) * 1000;
    // quiescent class: now and then one side disables its own idle timeout; the effective value is
    // then the peer's (RFC 9000 §10.1: the minimum of the two, a zero meaning "none")
    if class == 0 {
        match rng.below(6) {
            0 => params.idle_client_ms = 0,
            1 => params.idle_server_ms = 0,
            _ => {}
        }
    }
    let tb = Duration::from_millis(match class {
        0 => 4000,
        1 => *rng.pick(&[0u64, 1, 5, 15, 30]),
        _ => *rng.pick(&[150u64, 400, 1000]),
    });
    let lat = Duration::from_millis(*rng.pick(&[1, 10, 25]));
    let mut c2s = FaultProfile { latency: lat, ..Default::default() };
    let mut s2c = FaultProfile { latency: lat, ..Default::default() };
    let which = rng.below(4);
    let label = match which {
        0 => {
            c2s.dead_from = Some(tb);
            s2c.dead_from = Some(tb);
            "blackout"
        }
        1 => {
            c2s.dead_from = Some(tb);
            "mute-c2s"
        }
        2 => {
            s2c.dead_from = Some(tb);
            "mute-s2c"
        }
        _ => {
            c2s.corrupt_from = Some(tb);
            s2c.corrupt_from = Some(tb);
            "corrupt"
        }
    };
    let mut jobs = if class == 0 { scenario::gen_jobs(rng, &params, 30_000) } else { scenario::gen_jobs(rng, &params, 600_000) };
    if class == 0 {
        // everything above is long finished at T_b; this read stays pending
        jobs.push(scenario::Job { kind: scenario::JobKind::Hang, size: rng.range(1, 2000) as usize, chunk: 4096 });
    } else {
        // make sure something is still in progress when the network dies
        jobs.push(scenario::Job { kind: scenario::JobKind::BidiEcho, size: 2_000_000, chunk: 4096 });
    }
    let deadline = tb + Duration::from_millis(params.idle_client_ms + params.idle_server_ms + 10_000);
    Case {
        spec: Spec { seed, params, c2s, s2c, jobs, datagrams: vec![], log: LogMode::Capture, with_qlog: true, deadline, clean_close: false },
        bounded_until_ms: None,
        tb_ms: Some(tb.as_millis() as u64),
        label: format!("unbounded {label} at {} ms", tb.as_millis()),
    }
}

/// Trigger class of an unbounded-fault scenario, derived from what was observed:
/// `handshake` = the network died before the client saw the handshake complete,
/// `quiescent` = every transfer job had completed before T_b (only a read is pending),
/// `data-in-flight` = otherwise.
pub fn unbounded_class(case: &Case, out: &Outcome) -> &'static str {
    let tb = case.tb_ms.unwrap_or(0);
    match out.shared.handshake_ms {
        None => "handshake",
        Some(h) if h >= tb => "handshake",
        _ => {
            if out.shared.jobs.iter().all(|j| j.kind == "Hang" || j.done_ms.is_some_and(|d| d < tb)) {
                // The applications were done, but an endpoint may still have had unacknowledged packets in flight
                // (the last acknowledgements died with the network).  Such an endpoint is recognisable on the
                // wire: it was not told and it keeps retransmitting long after T_b - that is the data-in-flight
                // class.  A quiescent endpoint is silent.
                let settle = tb + 3000;
                let still_sending = |addr: std::net::SocketAddr| out.net.with(|n| n.sent.iter().filter(|e| e.src == addr && e.t.as_millis() as u64 > settle).count()) >= 3;
                let client_untold = out.shared.client_term.is_none();
                let server_untold = out.shared.server_term.is_none() && out.shared.accepted_conns > 0;
                if (client_untold && still_sending(crate::world::client_addr())) || (server_untold && still_sending(crate::world::server_addr())) {
                    "data-in-flight"
                } else {
                    "quiescent"
                }
            } else {
                "data-in-flight"
            }
        }
    }
}

pub struct Verdict {
    pub findings: Vec<oracle::Finding>,
    pub handshake_ok: bool,
    pub all_complete: bool,
    /// the bounded-fault liveness clause was not judged (see `path_declared_lost`)
    pub path_declared_lost: bool,
}

/// The stack gives a path up after a number of consecutive probe timeouts without any reply ("Lost path
/// state" after six) and, with a single path, fails the connection - long before the negotiated idle timeout.
/// When a fault schedule that is bounded in time swallows that many consecutive datagrams of one endpoint,
/// the bounded-fault liveness clause fails in this specific way; it gets its own signature so that it is
/// distinguishable from a stall (a connection that neither progresses nor fails).
fn path_declared_lost(out: &Outcome) -> bool {
    let run_of_drops = |addr: std::net::SocketAddr| {
        out.net.with(|n| {
            let mut best = 0;
            let mut cur = 0;
            for e in n.sent.iter().filter(|e| e.src == addr) {
                if matches!(e.fate, crate::sim::Fate::Drop(_)) {
                    cur += 1;
                    best = best.max(cur);
                } else {
                    cur = 0;
                }
            }
            best
        })
    };
    let lost = |term: &Option<String>, addr| term.as_deref() == Some("NoViablePath") && run_of_drops(addr) >= 5;
    lost(&out.shared.client_term, crate::world::client_addr()) || lost(&out.shared.server_term, crate::world::server_addr())
}

pub fn evaluate(case: &Case, out: &Outcome) -> Verdict {
    let mut f = vec![];
    f.extend(oracle::check_data(out));
    f.extend(oracle::check_datagrams(out));
    f.extend(oracle::check_panics(out));
    let (pf, _) = oracle::check_packet_numbers(out, true, false);
    f.extend(pf);
    let hs = out.shared.handshake_ms.is_some();
    let all_complete = out.shared.jobs.iter().all(|j| j.complete());
    let mut declared_lost = false;
    if case.bounded_until_ms.is_some() && (!hs || !out.finished || !all_complete) && path_declared_lost(out) {
        declared_lost = true;
        f.push((
            "liveness.bounded:path-declared-lost".into(),
            format!(
                "an endpoint gave the connection up (NoViablePath) after at least five of its datagrams in a row were dropped, although the faults end at {} ms and the idle timeouts are {} / {} ms [{}]; client_term={:?} server_term={:?}",
                case.bounded_until_ms.unwrap(),
                out.spec.params.idle_client_ms,
                out.spec.params.idle_server_ms,
                case.label,
                out.shared.client_term,
                out.shared.server_term
            ),
        ));
    } else if case.bounded_until_ms.is_some() {
        if !hs {
            f.push(("liveness.bounded:handshake".into(), format!("handshake not complete {} ms (virtual) after the faults ended [{}]", out.spec.deadline.as_millis() as u64 - case.bounded_until_ms.unwrap(), case.label)));
        } else if !out.finished || !all_complete {
            let stuck: Vec<String> = out.shared.jobs.iter().enumerate().filter(|(_, j)| !j.complete()).map(|(i, j)| format!("#{i} {}", j.to_json())).take(3).collect();
            f.push(("liveness.bounded:transfer".into(), format!("transfers incomplete at the virtual deadline ({} ms; faults ended at {} ms) [{}]: {}", out.spec.deadline.as_millis(), case.bounded_until_ms.unwrap(), case.label, stuck.join(" "))));
        }
    } else if !out.finished {
        let class = unbounded_class(case, out);
        let pending: Vec<String> = out.shared.jobs.iter().enumerate().filter(|(_, j)| j.done_ms.is_none() && j.open_err.is_none()).map(|(i, j)| format!("#{i} {}", j.to_json())).take(3).collect();
        f.push((format!("failure.bounded:{class}"), format!("application futures still pending (or an application not told) {} ms (virtual) after the network failed for good [{}]; client_term={:?} server_term={:?}: {}", out.spec.deadline.as_millis() as u64 - case.tb_ms.unwrap_or(0), case.label, out.shared.client_term, out.shared.server_term, pending.join(" "))));
    }
    Verdict { findings: f, handshake_ok: hs, all_complete, path_declared_lost: declared_lost }
}

pub fn observe(rep: &mut Report, case: &Case, out: &Outcome, v: &Verdict) {
    let st = out.net.with(|n| (n.n_sent, n.n_delivered, n.n_dropped, n.n_dup, n.n_trunc, n.n_flip, n.n_reordered));
    rep.add("datagrams_sent", st.0);
    rep.add("datagrams_delivered", st.1);
    rep.add("faults_dropped", st.2);
    rep.add("faults_duplicated", st.3);
    rep.add("faults_truncated", st.4);
    rep.add("faults_bitflipped", st.5);
    rep.add("faults_reordered", st.6);
    rep.add("stream_bytes_validated", out.shared.jobs.iter().map(|j| j.read as u64).sum::<u64>() + out.shared.server_uni.values().map(|r| r.0 as u64).sum::<u64>());
    rep.add("streams", out.shared.jobs.len() as u64);
    rep.add("qlog_events", out.events.len() as u64);
    let (_, pn) = oracle::check_packet_numbers(out, false, false);
    rep.add("qlog_packet_received", pn.received);
    rep.add("qlog_packet_sent", pn.sent);
    rep.add("qlog_packet_dropped", pn.dropped_events);
    rep.add("qlog_packet_lost", pn.lost_events);
    if case.bounded_until_ms.is_some() {
        rep.count("bounded_scenarios");
        if v.path_declared_lost {
            rep.count("bounded_path_declared_lost_after_5_consecutive_drops");
        }
        if v.handshake_ok {
            rep.count("bounded_handshakes_completed");
        }
        if v.all_complete {
            rep.count("bounded_all_transfers_completed");
        }
    } else {
        rep.count("unbounded_scenarios");
        rep.count(&format!("unbounded_class_{}", unbounded_class(case, out)));
        if case.spec.params.idle_client_ms == 0 || case.spec.params.idle_server_ms == 0 {
            rep.count("unbounded_one_side_idle_timeout_disabled");
        }
        if out.finished {
            rep.count("unbounded_all_futures_resolved");
        }
        if out.shared.client_term.is_some() {
            rep.count("unbounded_client_told_failure");
        }
        if out.shared.server_term.is_some() {
            rep.count("unbounded_server_told_failure");
        }
    }
    rep.max("max_virtual_ms", out.end_ms);
}

pub fn run(args: &Args, rep: &mut Report) {
    rep.rule = "scenario = (transport-parameter config, fault profile per direction, job list) drawn from the seed; distinct = \
                distinct (fault label, job list, params) tuples; non-trivial = at least one fault was actually applied to a datagram"
        .into();
    if let Some(path) = args.get("replay") {
        let v: Value = serde_json::from_str(&std::fs::read_to_string(path).unwrap()).unwrap();
        let v = if v.get("replay").is_some() { v["replay"].clone() } else { v };
        let case = Case::from_json(&v);
        let out = scenario::run(&case.spec);
        let ver = evaluate(&case, &out);
        observe(rep, &case, &out, &ver);
        if args.flag("dump") {
            dump(&out);
        }
        if let Some(w) = args.get("dump-window") {
            let v: Vec<u64> = w.split(',').filter_map(|x| x.parse().ok()).collect();
            dump_window(&out, v[0] == 1, v[1], v[2]);
        }
        if let Some(n) = args.get("dump-wire-tail") {
            let n: usize = n.parse().unwrap_or(60);
            let sent = out.net.with(|x| x.sent.clone());
            for e in sent.iter().skip(sent.len().saturating_sub(n)) {
                eprintln!("  {:>10.3} ms {} -> {} len {:>4} ord {} {:?} delay {:?}", e.t.as_secs_f64() * 1000.0, e.src, e.dst, e.len, e.ordinal, e.fate, e.delay);
            }
        }
        if let Some(path) = args.get("dump-events") {
            use std::io::Write;
            let mut f = std::fs::File::create(path).unwrap();
            for (vp, e) in &out.events {
                let _ = writeln!(f, "{:?}\t{}", vp, serde_json::to_string(e).unwrap_or_default());
            }
        }
        if let Some(sid) = args.get("dump-stream") {
            dump_stream(&out, sid.parse().unwrap_or(0));
        }
        rep.evaluations += 1;
        for (sig, what) in ver.findings {
            rep.violation(format!("C02.{sig}"), what, case.to_json());
        }
        return;
    }
    let thorough = args.get("tier") == Some("thorough");
    let shard = args.u64("shard", 0);
    let n = args.budget(if thorough { 400 } else { 10 });
    let mut rng = Rng::new(args.seed() ^ 0xc02).fork(shard);
    for i in 0..n {
        let sseed = rng.next_u64();
        let mut r = rng.fork(i);
        // unbounded classes 1 and 2 are known to hang (see KNOWN_FINDINGS) and cost ~1 s of wall time per
        // virtual second while they do: they are explored sparsely
        let case = match r.below(24) {
            0 => gen_unbounded(&mut r, sseed, 1),
            1 => gen_unbounded(&mut r, sseed, 2),
            2..=5 => gen_unbounded(&mut r, sseed, 0),
            _ => gen_bounded(&mut r, sseed),
        };
        let mut case = case;
        if case.bounded_until_ms.is_some() && i % 4 == 3 {
            // targeted loss on top of the random schedule: the first 1-3 datagrams of one direction that contain a
            // packet of one kind vanish (the client's Finished, the server's first flight, the first 1-RTT packets)
            let mut r2 = r.fork(0x71);
            let kind = *r2.pick(&['h', 'h', 'i', 's']);
            let n = r2.range(1, 3) as u32;
            if r2.bool() {
                case.spec.c2s.drop_first_of_kind = Some((kind, n));
            } else {
                case.spec.s2c.drop_first_of_kind = Some((kind, n));
            }
            case.label = format!("{} + first {n} '{kind}' datagrams dropped", case.label);
            rep.count("bounded_scenarios_with_targeted_packet_kind_loss");
        }
        let out = scenario::run(&case.spec);
        let ver = evaluate(&case, &out);
        observe(rep, &case, &out, &ver);
        rep.evaluations += 1;
        let faults = out.net.with(|n| n.n_dropped + n.n_dup + n.n_trunc + n.n_flip + n.n_reordered);
        if faults > 0 {
            rep.distinct(vcore::fnv_str(&case.to_json().to_string()));
        }
        if i < 2 {
            rep.sample(json!({"label": case.label, "jobs": case.spec.to_json()["jobs"], "params": case.spec.params.to_json(),
                "net": out.net.stats_json(), "handshake_ms": out.shared.handshake_ms, "all_done_ms": out.shared.all_done_ms,
                "client_term": out.shared.client_term, "server_term": out.shared.server_term, "finished": out.finished}));
        }
        for (sig, what) in ver.findings {
            let mut rj = case.to_json();
            rj["decisions"] = out.net.decision_log();
            rep.violation(format!("C02.{sig}"), what, rj);
        }
    }
}

/// debugging aid: `l2 c02 --replay f --dump 1` prints the outcome summary to stderr
pub fn dump(out: &Outcome) {
    let s = &out.shared;
    eprintln!(
        "finished={} end_ms={} handshake_ms={:?} server_handshake_ms={:?} all_done_ms={:?} client_term={:?}@{:?} server_term={:?}@{:?} accepted={}",
        out.finished, out.end_ms, s.handshake_ms, s.server_handshake_ms, s.all_done_ms, s.client_term, s.client_term_ms, s.server_term, s.server_term_ms, s.accepted_conns
    );
    for j in &s.jobs {
        eprintln!("  {}", j.to_json());
    }
    let mut last = std::collections::BTreeMap::new();
    for e in out.net.with(|n| n.sent.clone()) {
        last.insert(format!("{}->{}", e.src, e.dst), (e.t.as_millis(), e.ordinal, e.len, e.kinds.clone()));
    }
    eprintln!("  last sends: {last:?}");
}


// ------------------------------------------------------------------------------------------------
// L2 legs of other properties over the same scenario engine
// ------------------------------------------------------------------------------------------------

/// C01 (stream data reliable / in order / exactly once) and C07 (packet numbers strictly increase)
/// observed on whole connections under bounded faults.
pub fn run_leg(args: &Args, rep: &mut Report, prop: &str) {
    rep.rule = "whole-stack scenario under bounded faults (see C02); distinct = distinct (fault label, job list, params); non-trivial = at least one fault applied".into();
    let eval = |case: &Case, out: &Outcome| -> Vec<oracle::Finding> {
        let mut f = vec![];
        match prop {
            "C01" => {
                f.extend(oracle::check_data(out));
                let ver = evaluate(case, out);
                f.extend(ver.findings.into_iter().filter(|(s, _)| s.starts_with("liveness.bounded")));
            }
            "C07" => {
                let (pf, _) = oracle::check_packet_numbers(out, false, true);
                f.extend(pf);
            }
            "C10" => f.extend(lost_frames_retransmitted(case, out)),
            _ => {}
        }
        f.extend(oracle::check_panics(out));
        f
    };
    if let Some(path) = args.get("replay") {
        let v: Value = serde_json::from_str(&std::fs::read_to_string(path).unwrap()).unwrap();
        let v = if v.get("replay").is_some() { v["replay"].clone() } else { v };
        let case = Case::from_json(&v);
        let out = scenario::run(&case.spec);
        rep.evaluations += 1;
        for (sig, what) in eval(&case, &out) {
            rep.violation(format!("{prop}.l2.{sig}"), what, case.to_json());
        }
        return;
    }
    let thorough = args.get("tier") == Some("thorough");
    let shard = args.u64("shard", 0);
    let n = args.budget(if thorough { 200 } else { 6 });
    let mut rng = Rng::new(args.seed() ^ 0xc02 ^ vcore::fnv_str(prop)).fork(shard);
    for i in 0..n {
        let sseed = rng.next_u64();
        let mut r = rng.fork(i);
        let mut case = gen_bounded(&mut r, sseed);
        if prop == "C10" && i % 2 == 0 {
            // the clause needs packets that carry retransmittable frames to be LOST in every space: besides the random
            // schedule, the first 1-3 datagrams of one direction that contain a Handshake (or Initial / 1-RTT) packet vanish
            let kind = *r.pick(&['h', 'h', 'i', 's']);
            let n = r.range(1, 3) as u32;
            if r.bool() {
                case.spec.c2s.drop_first_of_kind = Some((kind, n));
            } else {
                case.spec.s2c.drop_first_of_kind = Some((kind, n));
            }
            case.label = format!("{} + first {n} '{kind}' datagrams dropped", case.label);
            rep.count("l2_scenarios_with_targeted_packet_kind_loss");
        }
        if prop == "C07" && i % 3 == 1 {
            // packets that carry nothing but a DATAGRAM frame (frames the sent journal does not track) must consume
            // their packet number too: one short echo, then datagrams from both sides on an otherwise idle connection
            case.spec.params.datagram = 1200;
            case.spec.jobs = vec![scenario::Job { kind: scenario::JobKind::BidiEcho, size: r.range(1, 3000) as usize, chunk: 1200 }];
            case.spec.datagrams = (0..r.range(10, 40)).map(|k| (k % 2 == 0, r.range(8, 600) as usize)).collect();
            case.label = format!("{} + datagrams", case.label);
            rep.count("l2_scenarios_with_datagram_only_packets");
        }
        let out = scenario::run(&case.spec);
        rep.evaluations += 1;
        let ver = evaluate(&case, &out);
        observe(rep, &case, &out, &ver);
        let faults = out.net.with(|n| n.n_dropped + n.n_dup + n.n_trunc + n.n_flip + n.n_reordered);
        if faults > 0 {
            rep.distinct(vcore::fnv_str(&case.to_json().to_string()));
        }
        if prop == "C07" {
            // distinct (vantage, space) packet-number sequences observed
            let (_, st) = oracle::check_packet_numbers(&out, false, true);
            rep.add("l2_packet_sent_events_checked", st.sent);
        }
        if i == 0 {
            rep.sample(json!({"leg": "l2", "label": case.label, "jobs": case.spec.to_json()["jobs"], "net": out.net.stats_json()}));
        }
        for (sig, what) in eval(&case, &out) {
            rep.violation(format!("{prop}.l2.{sig}"), what, case.to_json());
        }
    }
}

/// C10, whole-connection clause "frames of packets declared lost are reported for retransmission": judged only
/// when a bounded-fault scenario stalled (handshake or transfers incomplete at the deadline, no endpoint gave
/// the path up).  Then every CRYPTO / STREAM range that an endpoint's own log declares lost must appear again in
/// a later packet of the same space from that endpoint, provided the endpoint sent at least ten more packets
/// after the declaration (qlog time is wall time, so "later" is counted in packets, not in milliseconds).
pub fn lost_frames_retransmitted(case: &Case, out: &Outcome) -> Vec<oracle::Finding> {
    let mut f = vec![];
    let ver = evaluate(case, out);
    let stalled = case.bounded_until_ms.is_some() && !ver.path_declared_lost && (!ver.handshake_ok || !ver.all_complete || !out.finished);
    if !stalled {
        return f;
    }
    // (vantage is server, space, frame type, stream id, offset, end, time)
    type Rng_ = (bool, String, String, u64, u64, u64, f64);
    let mut lost: Vec<Rng_> = vec![];
    let mut sent: Vec<Rng_> = vec![];
    // "time" = number of packets the vantage had sent so far
    let mut n_sent = [0f64; 2];
    for (vp, e) in &out.events {
        let Ok(j) = serde_json::to_value(e) else { continue };
        let name = j["name"].as_str().unwrap_or("");
        if name != "quic:packet_lost" && name != "quic:packet_sent" {
            continue;
        }
        let is_server = matches!(vp, qevent::VantagePointType::Server);
        if name == "quic:packet_sent" {
            n_sent[is_server as usize] += 1.0;
        }
        let t = n_sent[is_server as usize];
        let space = j["data"]["header"]["packet_type"].as_str().unwrap_or("").to_string();
        for fr in j["data"]["frames"].as_array().into_iter().flatten() {
            let ty = fr["frame_type"].as_str().unwrap_or("");
            if ty != "crypto" && ty != "stream" {
                continue;
            }
            let off = fr["offset"].as_u64().unwrap_or(0);
            let len = fr["length"].as_u64().unwrap_or(0);
            let rec = (is_server, space.clone(), ty.to_string(), fr["stream_id"].as_u64().unwrap_or(0), off, off + len, t);
            if name == "quic:packet_lost" { lost.push(rec) } else { sent.push(rec) }
        }
    }
    for l in &lost {
        let later_packets = n_sent[l.0 as usize] - l.6;
        if l.5 == l.4 || later_packets < 10.0 {
            continue;
        }
        let again = sent.iter().any(|s| s.0 == l.0 && s.1 == l.1 && s.2 == l.2 && s.3 == l.3 && s.6 >= l.6 && s.4 < l.5 && l.4 < s.5);
        if !again {
            f.push((
                format!("lost-frames-not-retransmitted:{}:{}", l.1, l.2),
                format!(
                    "the connection stalled under bounded faults [{}]; the {} declared a {} packet lost that carried {} bytes {}..{}{} and never sent those bytes again in the {:.0} packets it sent afterwards",
                    case.label,
                    if l.0 { "server" } else { "client" },
                    l.1,
                    l.2,
                    l.4,
                    l.5,
                    if l.2 == "stream" { format!(" of stream {}", l.3) } else { String::new() },
                    later_packets
                ),
            ));
            break;
        }
    }
    f
}

/// debugging aid: qlog lines that mention stream `sid`
pub fn dump_stream(out: &Outcome, sid: u64) {
    for (vp, e) in &out.events {
        let Ok(j) = serde_json::to_value(e) else { continue };
        let name = j["name"].as_str().unwrap_or("");
        let d = &j["data"];
        let hit = match name {
            "quic:packet_sent" | "quic:packet_received" | "quic:packet_lost" => d["frames"].as_array().is_some_and(|fs| fs.iter().any(|f| f["stream_id"] == sid && f["frame_type"] != "max_stream_data")),
            "quic:stream_state_updated" => d["stream_id"] == sid,
            _ => false,
        };
        if hit {
            let frames: Vec<String> = d["frames"].as_array().map(|fs| fs.iter().filter(|f| f["stream_id"] == sid).map(|f| format!("{}[{}+{} fin={}]", f["frame_type"].as_str().unwrap_or("?"), f["offset"], f["length"], f["fin"])).collect()).unwrap_or_default();
            eprintln!("  {vp:?} {name} pn={} {} {}", d["header"]["packet_number"], frames.join(" "), if name.contains("state") { format!("{} -> {} ({})", d["old"], d["new"], d["stream_side"]) } else { String::new() });
        }
    }
}

/// debugging aid: every packet event of one vantage within a packet-number window of the data space
pub fn dump_window(out: &Outcome, server: bool, lo: u64, hi: u64) {
    let t0 = out.events.first().and_then(|(_, e)| serde_json::to_value(e).ok()).and_then(|j| j["time"].as_f64()).unwrap_or(0.0);
    for (vp, e) in &out.events {
        let Ok(j) = serde_json::to_value(e) else { continue };
        let name = j["name"].as_str().unwrap_or("");
        if !name.contains("packet") && !name.contains("acked") {
            continue;
        }
        let d = &j["data"];
        let is_server = matches!(vp, qevent::VantagePointType::Server);
        let pn = d["header"]["packet_number"].as_u64();
        let ty = d["header"]["packet_type"].as_str().unwrap_or("");
        let t = j["time"].as_f64().unwrap_or(0.0) - t0;
        if name == "quic:packets_acked" {
            if is_server == server {
                let v: Vec<u64> = d["packet_nubers"].as_array().map(|a| a.iter().filter_map(|x| x.as_u64()).collect()).unwrap_or_default();
                if v.iter().any(|p| *p >= lo && *p <= hi) {
                    eprintln!("  {t:9.3} {vp:?} packets_acked {:?} {}", v, d["packet_number_space"]);
                }
            }
            continue;
        }
        if ty != "1RTT" {
            continue;
        }
        // packets sent by `server` side in [lo,hi] and everything the other side sends that carries an ack
        let frames: Vec<String> = d["frames"].as_array().map(|fs| fs.iter().map(|f| match f["frame_type"].as_str() {
            Some("ack") => format!("ack{}", f["acked_ranges"]),
            Some("stream") => format!("stream{}[{}+{}{}]", f["stream_id"], f["offset"], f["length"], if f["fin"] == true { " FIN" } else { "" }),
            Some(o) => o.to_string(),
            None => "?".into(),
        }).collect()).unwrap_or_default();
        let mine = is_server == server && pn.is_some_and(|p| p >= lo && p <= hi);
        let acks_mine = is_server != server && name == "quic:packet_sent" && frames.iter().any(|f| f.starts_with("ack"));
        let rcvd_acks = is_server == server && name == "quic:packet_received" && frames.iter().any(|f| f.starts_with("ack"));
        if mine || ((acks_mine || rcvd_acks) && t > 0.0) {
            eprintln!("  {t:9.3} {vp:?} {name} pn={} {}", pn.unwrap_or(0), frames.join(" "));
        }
    }
}
