//! C17 — closing or failing a connection ends every pending operation.
//!
//! A real client and server get a set of application operations pending on both sides (window
//! blocked write / flush / shutdown, read, limit-blocked open_bi / open_uni, accept_bi /
//! accept_uni, datagram recv, handshaked(), terminated()).  At a chosen point of the connection's
//! life one of {local close, peer close, both close, protocol error injected into the peer's
//! packets, permanent black-out, idleness} happens.  Oracle: every operation pending at that
//! moment and every operation started afterwards resolves with the connection's terminating
//! error within a virtual-time bound; `terminated()` gives every caller the same error; the
//! qlog state sequence only moves forward; no STREAM / DATAGRAM frame is sent after closing;
//! idle termination happens after the negotiated idle timeout and not before.
use std::{
    sync::{Arc, Mutex},
    time::Duration,
};

use dquic::prelude::*;
use qevent::VantagePointType;
use serde_json::{Value, json};
use tokio::io::{AsyncReadExt, AsyncWriteExt};
use vcore::{Args, Report, Rng};

use crate::{
    scenario::ParamCfg,
    sim::FaultProfile,
    world::{LogMode, World, WorldCfg, client_addr, run_paused, server_addr},
};

#[derive(Clone, Debug)]
pub struct Case {
    pub seed: u64,
    pub trigger: String, // local-close | peer-close | both-close | proto-error | blackout | idle
    pub phase: String,   // pre | mid | post
    pub latency_ms: u64,
    pub idle_client_ms: u64,
    pub idle_server_ms: u64,
}

impl Case {
    fn to_json(&self) -> Value {
        json!({"kind": "c17", "seed": self.seed, "trigger": self.trigger, "phase": self.phase, "latency_ms": self.latency_ms,
               "idle_client_ms": self.idle_client_ms, "idle_server_ms": self.idle_server_ms})
    }
    fn from_json(v: &Value) -> Case {
        Case {
            seed: v["seed"].as_u64().unwrap_or(1),
            trigger: v["trigger"].as_str().unwrap_or("local-close").into(),
            phase: v["phase"].as_str().unwrap_or("post").into(),
            latency_ms: v["latency_ms"].as_u64().unwrap_or(10),
            idle_client_ms: v["idle_client_ms"].as_u64().unwrap_or(30_000),
            idle_server_ms: v["idle_server_ms"].as_u64().unwrap_or(30_000),
        }
    }
}

#[derive(Clone, Debug)]
struct OpRec {
    name: String,
    started_ms: u64,
    resolved_ms: Option<u64>,
    ok: Option<bool>,
    kind: Option<String>,
    text: String,
    /// started after the trigger
    later: bool,
}

type Ops = Arc<Mutex<Vec<OpRec>>>;

#[derive(Clone)]
struct Ctx {
    ops: Ops,
    net: crate::sim::SimNet,
}

enum R {
    Ok(String),
    Err(Option<String>, String),
}

fn from_conn_err(e: &Error) -> R {
    R::Err(Some(format!("{:?}", e.kind())), format!("{e}"))
}

fn from_io_err(e: &std::io::Error) -> R {
    let kind = e.get_ref().and_then(|i| i.downcast_ref::<StreamError>()).and_then(|s| match s {
        StreamError::Connection(c) => Some(format!("{:?}", c.kind())),
        _ => None,
    });
    // datagram ops wrap the connection error directly
    let kind = kind.or_else(|| e.get_ref().and_then(|i| i.downcast_ref::<Error>()).map(|c| format!("{:?}", c.kind())));
    R::Err(kind, format!("{e}"))
}

impl Ctx {
    fn now(&self) -> u64 {
        self.net.now().as_millis() as u64
    }
    /// run `fut` as a tracked operation
    fn track<F>(&self, name: &str, later: bool, fut: F)
    where
        F: Future<Output = R> + Send + 'static,
    {
        let idx = {
            let mut g = self.ops.lock().unwrap();
            g.push(OpRec { name: name.to_string(), started_ms: self.now(), resolved_ms: None, ok: None, kind: None, text: String::new(), later });
            g.len() - 1
        };
        let me = self.clone();
        tokio::spawn(async move {
            let r = fut.await;
            let now = me.now();
            let mut g = me.ops.lock().unwrap();
            let o = &mut g[idx];
            o.resolved_ms = Some(now);
            match r {
                R::Ok(t) => {
                    o.ok = Some(true);
                    o.text = t;
                }
                R::Err(k, t) => {
                    o.ok = Some(false);
                    o.kind = k;
                    o.text = t;
                }
            }
        });
    }
}

/// keeps stream halves alive so dropping them does not reset streams
#[derive(Default)]
struct Parked {
    readers: Vec<StreamReader>,
    writers: Vec<StreamWriter>,
    /// writer of this side's own second bidirectional stream (nobody reads it): one byte written on it makes
    /// this side send a 1-RTT packet
    own_bidi1: Option<StreamWriter>,
}

fn client_ops(ctx: &Ctx, conn: Arc<Connection>, side: &'static str, parked: Arc<Mutex<Parked>>, later: bool) {
    // stream A: window-blocked write (second write after the window is full)
    {
        let c = conn.clone();
        let p = parked.clone();
        ctx.track(&format!("{side}.write"), later, async move {
            match c.open_uni_stream().await {
                Ok(Some((_sid, mut w))) => {
                    let buf = vec![0x5au8; 8000];
                    let mut r = w.write_all(&buf).await;
                    while r.is_ok() {
                        r = w.write_all(&buf).await;
                    }
                    let e = r.unwrap_err();
                    p.lock().unwrap().writers.push(w);
                    from_io_err(&e)
                }
                Ok(None) => R::Ok("stream ids exhausted".into()),
                Err(e) => from_conn_err(&e),
            }
        });
    }
    // stream: flush with data beyond the window
    {
        let c = conn.clone();
        let p = parked.clone();
        ctx.track(&format!("{side}.flush"), later, async move {
            match c.open_uni_stream().await {
                Ok(Some((_sid, mut w))) => {
                    if let Err(e) = w.write_all(&vec![0x11u8; 6000]).await {
                        return from_io_err(&e);
                    }
                    let r = w.flush().await;
                    p.lock().unwrap().writers.push(w);
                    match r {
                        Ok(()) => R::Ok("flushed".into()),
                        Err(e) => from_io_err(&e),
                    }
                }
                Ok(None) => R::Ok("stream ids exhausted".into()),
                Err(e) => from_conn_err(&e),
            }
        });
    }
    // stream: shutdown with data beyond the window
    {
        let c = conn.clone();
        let p = parked.clone();
        ctx.track(&format!("{side}.shutdown"), later, async move {
            match c.open_uni_stream().await {
                Ok(Some((_sid, mut w))) => {
                    if let Err(e) = w.write_all(&vec![0x22u8; 6000]).await {
                        return from_io_err(&e);
                    }
                    let r = w.shutdown().await;
                    p.lock().unwrap().writers.push(w);
                    match r {
                        Ok(()) => R::Ok("shut down".into()),
                        Err(e) => from_io_err(&e),
                    }
                }
                Ok(None) => R::Ok("stream ids exhausted".into()),
                Err(e) => from_conn_err(&e),
            }
        });
    }
    // bidi stream: write a little, then read (the peer never answers)
    {
        let c = conn.clone();
        let p = parked.clone();
        ctx.track(&format!("{side}.read"), later, async move {
            match c.open_bi_stream().await {
                Ok(Some((_sid, (mut r, mut w)))) => {
                    if let Err(e) = w.write_all(b"0123456789").await {
                        return from_io_err(&e);
                    }
                    let mut buf = [0u8; 64];
                    let res = r.read(&mut buf).await;
                    let mut g = p.lock().unwrap();
                    g.writers.push(w);
                    g.readers.push(r);
                    match res {
                        Ok(n) => R::Ok(format!("read {n} bytes")),
                        Err(e) => from_io_err(&e),
                    }
                }
                Ok(None) => R::Ok("stream ids exhausted".into()),
                Err(e) => from_conn_err(&e),
            }
        });
    }
    // limit-blocked opens: uni limit is 3 and three are in use above; bidi limit is 2
    {
        let c = conn.clone();
        let p = parked.clone();
        ctx.track(&format!("{side}.open_uni"), later, async move {
            // let the three streams above take their ids first
            tokio::time::sleep(Duration::from_millis(1)).await;
            match c.open_uni_stream().await {
                Ok(Some((sid, w))) => {
                    p.lock().unwrap().writers.push(w);
                    R::Ok(format!("opened {sid:?}"))
                }
                Ok(None) => R::Ok("stream ids exhausted".into()),
                Err(e) => from_conn_err(&e),
            }
        });
    }
    {
        let c = conn.clone();
        let p = parked.clone();
        ctx.track(&format!("{side}.open_bi"), later, async move {
            tokio::time::sleep(Duration::from_millis(1)).await;
            // one bidi id is used by the read op; take the second, the third blocks
            let mut last = String::new();
            for _ in 0..2 {
                match c.open_bi_stream().await {
                    Ok(Some((sid, (r, w)))) => {
                        let mut g = p.lock().unwrap();
                        g.readers.push(r);
                        if g.own_bidi1.is_none() {
                            g.own_bidi1 = Some(w);
                        } else {
                            g.writers.push(w);
                        }
                        last = format!("opened {sid:?}");
                    }
                    Ok(None) => return R::Ok("stream ids exhausted".into()),
                    Err(e) => return from_conn_err(&e),
                }
            }
            R::Ok(last)
        });
    }
    {
        // a second task blocked on the same stream-count limit (queued behind the one above): closing or failing
        // the connection has to release every waiter, not only the first of the queue
        let c = conn.clone();
        let p = parked.clone();
        ctx.track(&format!("{side}.open_bi2"), later, async move {
            tokio::time::sleep(Duration::from_millis(3)).await;
            match c.open_bi_stream().await {
                Ok(Some((sid, (r, w)))) => {
                    let mut g = p.lock().unwrap();
                    g.readers.push(r);
                    g.writers.push(w);
                    R::Ok(format!("opened {sid:?}"))
                }
                Ok(None) => R::Ok("stream ids exhausted".into()),
                Err(e) => from_conn_err(&e),
            }
        });
    }
    {
        let c = conn.clone();
        ctx.track(&format!("{side}.dgram_recv"), later, async move {
            match c.datagram_reader() {
                Ok(Ok(mut rd)) => match rd.recv().await {
                    Ok(d) => R::Ok(format!("datagram of {} bytes", d.len())),
                    Err(e) => from_io_err(&e),
                },
                Ok(Err(e)) => from_io_err(&e),
                Err(e) => from_conn_err(&e),
            }
        });
    }
    {
        // waits for the peer's transport parameters
        let c = conn.clone();
        ctx.track(&format!("{side}.dgram_writer"), later, async move {
            match c.datagram_writer().await {
                Ok(Ok(_w)) => R::Ok("datagram writer".into()),
                Ok(Err(e)) => from_io_err(&e),
                Err(e) => from_conn_err(&e),
            }
        });
    }
    {
        let c = conn.clone();
        ctx.track(&format!("{side}.handshaked"), later, async move {
            match c.handshaked().await {
                Ok(()) => R::Ok("handshaked".into()),
                Err(e) => from_conn_err(&e),
            }
        });
    }
    for k in 0..2 {
        let c = conn.clone();
        ctx.track(&format!("{side}.terminated{k}"), later, async move {
            if k == 1 {
                tokio::time::sleep(Duration::from_millis(37)).await;
            }
            let e = c.terminated().await;
            R::Err(Some(format!("{:?}", e.kind())), format!("{e:?}"))
        });
    }
}

/// id of the peer-initiated bidirectional stream (index 1) on which the scenario creates a "final size known,
/// earlier bytes missing" state at the side `side`
fn gap_stream_id(side: &str) -> u64 {
    if side == "C" { 5 } else { 4 }
}

/// STREAM frame (OFF|LEN|FIN) carrying bytes 10..15 and the FIN of stream `id`
fn gap_fin_frame(id: u8) -> Vec<u8> {
    vec![0x0f, id, 10, 5, b'v', b'w', b'x', b'y', b'z']
}

/// accept loops that park what they accept (never read): the last accept of each kind stays pending
fn accept_ops(ctx: &Ctx, conn: Arc<Connection>, side: &'static str, parked: Arc<Mutex<Parked>>, later: bool) {
    {
        let c = conn.clone();
        let p = parked.clone();
        let ctx2 = ctx.clone();
        ctx.track(&format!("{side}.accept_bi"), later, async move {
            loop {
                match c.accept_bi_stream().await {
                    Ok((sid, (mut r, w))) => {
                        let key: u64 = sid.into();
                        if key == gap_stream_id(side) {
                            // the peer's second bidirectional stream: the scenario has put its last bytes and
                            // its FIN on the wire but not the bytes before them, so the final size is known
                            // while data is missing - a read on it stays pending until the connection ends
                            p.lock().unwrap().writers.push(w);
                            ctx2.track(&format!("{side}.read_gap_before_fin"), later, async move {
                                let mut buf = [0u8; 64];
                                let mut total = 0;
                                loop {
                                    match r.read(&mut buf).await {
                                        Ok(0) => return R::Ok(format!("end of stream after {total} bytes although bytes are missing")),
                                        Ok(n) => total += n,
                                        Err(e) => return from_io_err(&e),
                                    }
                                }
                            });
                            continue;
                        }
                        let mut g = p.lock().unwrap();
                        g.readers.push(r);
                        g.writers.push(w);
                    }
                    Err(e) => return from_conn_err(&e),
                }
            }
        });
    }
    {
        let c = conn.clone();
        let p = parked.clone();
        ctx.track(&format!("{side}.accept_uni"), later, async move {
            loop {
                match c.accept_uni_stream().await {
                    Ok((_sid, r)) => p.lock().unwrap().readers.push(r),
                    Err(e) => return from_conn_err(&e),
                }
            }
        });
    }
}

/// operations started after the termination: must fail at once
fn later_ops(ctx: &Ctx, conn: Arc<Connection>, side: &'static str, parked: Arc<Mutex<Parked>>) {
    {
        let c = conn.clone();
        ctx.track(&format!("{side}.later.open_bi"), true, async move {
            match c.open_bi_stream().await {
                Ok(Some(_)) => R::Ok("opened a stream after termination".into()),
                Ok(None) => R::Ok("stream ids exhausted".into()),
                Err(e) => from_conn_err(&e),
            }
        });
    }
    {
        let c = conn.clone();
        ctx.track(&format!("{side}.later.open_uni"), true, async move {
            match c.open_uni_stream().await {
                Ok(Some(_)) => R::Ok("opened a stream after termination".into()),
                Ok(None) => R::Ok("stream ids exhausted".into()),
                Err(e) => from_conn_err(&e),
            }
        });
    }
    {
        let c = conn.clone();
        ctx.track(&format!("{side}.later.accept_bi"), true, async move {
            match c.accept_bi_stream().await {
                Ok(_) => R::Ok("accepted a stream after termination".into()),
                Err(e) => from_conn_err(&e),
            }
        });
    }
    {
        let c = conn.clone();
        ctx.track(&format!("{side}.later.dgram_send"), true, async move {
            match c.datagram_writer().await {
                Ok(Ok(w)) => match w.send(b"too late") {
                    Ok(()) => R::Ok("datagram accepted after termination".into()),
                    Err(e) => from_io_err(&e),
                },
                Ok(Err(e)) => from_io_err(&e),
                Err(e) => from_conn_err(&e),
            }
        });
    }
    // write on a stream that existed before
    let w = parked.lock().unwrap().writers.pop();
    if let Some(mut w) = w {
        ctx.track(&format!("{side}.later.write"), true, async move {
            match AsyncWriteExt::write(&mut w, b"data after termination").await {
                Ok(n) => R::Ok(format!("write accepted {n} bytes after termination")),
                Err(e) => from_io_err(&e),
            }
        });
    }
    let r = parked.lock().unwrap().readers.pop();
    if let Some(mut r) = r {
        ctx.track(&format!("{side}.later.read"), true, async move {
            let mut b = [0u8; 16];
            match r.read(&mut b).await {
                Ok(n) => R::Ok(format!("read returned Ok({n}) after termination")),
                Err(e) => from_io_err(&e),
            }
        });
    }
}

pub struct Run {
    ops: Vec<OpRec>,
    trigger_ms: u64,
    eval_ms: u64,
    events: Vec<(VantagePointType, qevent::Event)>,
    panics: Vec<vcore::panics::PanicRecord>,
    completed: bool,
    last_c2s_before: u64,
    last_s2c_before: u64,
}

fn run_case(case: &Case) -> Run {
    let pan0 = vcore::panics::count();
    let ops: Ops = Arc::new(Mutex::new(vec![]));
    let store: Arc<Mutex<Option<Arc<crate::world::EventStore>>>> = Arc::new(Mutex::new(None));
    let out: Arc<Mutex<(u64, u64, u64, u64)>> = Arc::new(Mutex::new((0, 0, 0, 0)));
    let case2 = case.clone();
    let ops2 = ops.clone();
    let store2 = store.clone();
    let out2 = out.clone();
    let min_idle = [case.idle_client_ms, case.idle_server_ms].into_iter().filter(|x| *x > 0).min().unwrap_or(0);
    let slow = matches!(case.trigger.as_str(), "blackout" | "idle");
    let bound_ms: u64 = if slow { min_idle + 4000 } else { 2500 };
    let deadline = Duration::from_millis(5_000 + bound_ms + 2_000 + if slow && min_idle == 0 { 60_000 } else { 0 });
    let done = run_paused(deadline, async move {
        let case = case2;
        let mut p = ParamCfg::default();
        p.streams_bidi = 2;
        p.streams_uni = 3;
        p.stream_data = 4096;
        p.max_data = 1 << 20;
        p.datagram = 1200;
        p.idle_client_ms = case.idle_client_ms;
        p.idle_server_ms = case.idle_server_ms;
        let cfg = WorldCfg { client_params: p.client(), server_params: p.server(), log: LogMode::Capture, with_qlog: true, mtu: 1500, refuse_clients: case.trigger == "peer-refuse", ..Default::default() };
        let w = World::new(case.seed, cfg).await;
        *store2.lock().unwrap() = Some(w.events.clone());
        let lat = Duration::from_millis(case.latency_ms);
        w.net.set_profile_towards(server_addr(), FaultProfile { latency: lat, ..Default::default() });
        w.net.set_profile_towards(client_addr(), FaultProfile { latency: lat, ..Default::default() });
        let ctx = Ctx { ops: ops2, net: w.net.clone() };
        let sparked = Arc::new(Mutex::new(Parked::default()));
        let cparked = Arc::new(Mutex::new(Parked::default()));
        // server side
        let sconn: Arc<Mutex<Option<Arc<Connection>>>> = Arc::new(Mutex::new(None));
        {
            let listeners = w.listeners.clone();
            let ctx = ctx.clone();
            let sconn = sconn.clone();
            let sparked = sparked.clone();
            tokio::spawn(async move {
                while let Ok((conn, _n, _p, _l)) = listeners.accept().await {
                    let conn = Arc::new(conn);
                    *sconn.lock().unwrap() = Some(conn.clone());
                    accept_ops(&ctx, conn.clone(), "S", sparked.clone(), false);
                    client_ops(&ctx, conn.clone(), "S", sparked.clone(), false);
                }
            });
        }
        let conn = Arc::new(w.connect().await);
        accept_ops(&ctx, conn.clone(), "C", cparked.clone(), false);
        client_ops(&ctx, conn.clone(), "C", cparked.clone(), false);
        // wait for the trigger point
        match case.phase.as_str() {
            "pre" => {}
            "mid" => tokio::time::sleep(lat + lat / 2).await,
            _ => {
                tokio::time::sleep(lat * 12 + Duration::from_millis(200)).await;
                // both sides: bytes 10..15 + FIN of the peer's second bidirectional stream arrive, bytes 1..10 never do
                // (hook H3 puts the frame into the next 1-RTT packet; one real byte at offset 0 makes sure there is one)
                qconnection::verif::inject_raw_frames(Role::Server, gap_fin_frame(5));
                qconnection::verif::inject_raw_frames(Role::Client, gap_fin_frame(4));
                for parked in [&sparked, &cparked] {
                    let wr = parked.lock().unwrap().own_bidi1.take();
                    if let Some(mut wr) = wr {
                        let _ = tokio::time::timeout(Duration::from_millis(50), wr.write_all(b"u")).await;
                        parked.lock().unwrap().writers.push(wr);
                    }
                }
                tokio::time::sleep(Duration::from_millis(200)).await;
            }
        }
        let t = ctx.now();
        {
            let mut g = out2.lock().unwrap();
            g.0 = t;
            g.2 = w.net.with(|n| n.delivered.iter().filter(|e| e.dst == server_addr()).map(|e| e.t.as_millis() as u64).max().unwrap_or(0));
            g.3 = w.net.with(|n| n.delivered.iter().filter(|e| e.dst == client_addr()).map(|e| e.t.as_millis() as u64).max().unwrap_or(0));
        }
        let mut s = sconn.lock().unwrap().clone();
        if s.is_none() && matches!(case.trigger.as_str(), "peer-close" | "both-close") {
            // the peer can only close a connection it knows about: wait until the server has accepted it
            for _ in 0..200 {
                tokio::time::sleep(Duration::from_millis(5)).await;
                s = sconn.lock().unwrap().clone();
                if s.is_some() {
                    break;
                }
            }
            out2.lock().unwrap().0 = ctx.now();
        }
        match case.trigger.as_str() {
            "local-close" => {
                let _ = conn.close("bye", 7);
            }
            "peer-close" => {
                if let Some(s) = &s {
                    let _ = s.close("bye from server", 9);
                }
            }
            "both-close" => {
                let _ = conn.close("bye", 7);
                if let Some(s) = &s {
                    let _ = s.close("bye from server", 9);
                }
            }
            "proto-error" => {
                // MAX_STREAMS(bidi) = 2^61: FRAME_ENCODING_ERROR at the client
                qconnection::verif::inject_raw_frames(Role::Server, vec![0x12, 0xe0, 0, 0, 0, 0, 0, 0, 0]);
                // wake the server's sender with a byte of application data
                let wr = sparked.lock().unwrap().writers.pop();
                if let Some(mut wr) = wr {
                    let _ = wr.write_all(b"x").await;
                    sparked.lock().unwrap().writers.push(wr);
                }
            }
            "blackout" => {
                let dead = Duration::from_millis(t);
                w.net.set_profile_towards(server_addr(), FaultProfile { latency: lat, dead_from: Some(dead), ..Default::default() });
                w.net.set_profile_towards(client_addr(), FaultProfile { latency: lat, dead_from: Some(dead), ..Default::default() });
            }
            _ => {} // idle: nothing happens
        }
        tokio::time::sleep(Duration::from_millis(bound_ms)).await;
        out2.lock().unwrap().1 = ctx.now();
        // operations started after the termination
        later_ops(&ctx, conn.clone(), "C", cparked.clone());
        if let Some(s) = &s {
            later_ops(&ctx, s.clone(), "S", sparked.clone());
        }
        tokio::time::sleep(Duration::from_millis(300)).await;
        w.listeners.shutdown();
    });
    // leftovers of the injection queue must not leak into the next scenario
    qconnection::verif::clear_injections();
    let events = store.lock().unwrap().as_ref().map(|s| std::mem::take(&mut *s.events.lock().unwrap())).unwrap_or_default();
    let o = *out.lock().unwrap();
    Run {
        ops: ops.lock().unwrap().clone(),
        trigger_ms: o.0,
        eval_ms: o.1,
        events,
        panics: vcore::panics::since(pan0),
        completed: done.is_some(),
        last_c2s_before: o.2,
        last_s2c_before: o.3,
    }
}

fn state_rank(s: &str) -> Option<u32> {
    // the life-cycle the property names; other (granular) states are not ordered by it
    match s {
        "attempted" => Some(1),
        "handshake_confirmed" => Some(2),
        "closing" => Some(3),
        "draining" => Some(4),
        "closed" => Some(5),
        _ => None,
    }
}

fn judge(rep: &mut Report, case: &Case, run: &Run) {
    let tag = format!("{}:{}", case.trigger, case.phase);
    let rj = case.to_json();
    for p in &run.panics {
        let loc = vcore::panics::short_location(&p.location);
        rep.violation(format!("C17.panic:{loc}"), format!("panic: {} at {loc} [{tag}]", p.message), rj.clone());
    }
    if !run.completed {
        rep.inconclusive(format!("scenario {tag} did not reach its evaluation point before the virtual deadline"));
        return;
    }
    let both_zero = case.idle_client_ms == 0 && case.idle_server_ms == 0;
    let min_idle = [case.idle_client_ms, case.idle_server_ms].into_iter().filter(|x| *x > 0).min().unwrap_or(0);
    let expect_termination = !(case.trigger == "idle" && both_zero);
    // a black-out with both idle timeouts disabled may or may not be noticed (only if something is in flight)
    let undetermined = case.trigger == "blackout" && both_zero;
    // per side terminating error kind as told by terminated()
    let term = |side: &str| run.ops.iter().find(|o| o.name == format!("{side}.terminated0")).cloned();
    for side in ["C", "S"] {
        let Some(t0) = term(side) else { continue };
        if undetermined {
            rep.count("blackout_with_idle_disabled_not_judged");
            continue;
        }
        let t1 = run.ops.iter().find(|o| o.name == format!("{side}.terminated1")).cloned();
        if !expect_termination {
            if t0.resolved_ms.is_some() {
                rep.violation(
                    format!("C17.idle.terminated-with-timeout-disabled:{side}"),
                    format!("{side} terminated at {:?} ms although both endpoints disabled the idle timeout and nothing failed: {}", t0.resolved_ms, t0.text),
                    rj.clone(),
                );
            } else {
                rep.count("idle_disabled_connection_stayed_up");
            }
            continue;
        }
        match (&t0.resolved_ms, t1.as_ref().and_then(|t| t.resolved_ms)) {
            (Some(_), Some(_)) => {
                rep.count("terminated_observed");
                if t1.as_ref().map(|t| &t.text) != Some(&t0.text) {
                    rep.violation(format!("C17.terminated.differs:{side}"), format!("two callers of terminated() on {side} got different errors: {} vs {}", t0.text, t1.unwrap().text), rj.clone());
                }
            }
            _ => {
                // the connection never terminated on this side: one finding; the operations still pending
                // on it are consequences, not separate findings
                let pending = run.ops.iter().filter(|o| o.name.starts_with(side) && o.resolved_ms.is_none()).count();
                rep.violation(
                    format!("C17.not-terminated:{tag}"),
                    format!("{side}: connection not terminated {} ms after {tag} (trigger at {} ms); {pending} operations still pending on this side", run.eval_ms - run.trigger_ms, run.trigger_ms),
                    rj.clone(),
                );
                continue;
            }
        }
        // expected kind for explicit closes / injected error
        let want = match case.trigger.as_str() {
            "local-close" | "peer-close" | "both-close" => Some("Application"),
            "proto-error" => Some("FrameEncoding"),
            "peer-refuse" => Some("ConnectionRefused"),
            _ => None,
        };
        if let (Some(want), Some(k)) = (want, &t0.kind) {
            if k != want {
                rep.violation(format!("C17.terminated.kind:{side}:{}", case.trigger), format!("{side} terminated with {k}, the trigger {tag} prescribes {want}: {}", t0.text), rj.clone());
            }
        }
        // idle clause: not before the timeout, and not much later
        // (a lost path may also be given up earlier for another reason, e.g. too many probe timeouts)
        if case.trigger == "idle" || (case.trigger == "blackout" && t0.text.contains("idle")) {
            if let Some(r) = t0.resolved_ms {
                let last_rx = if side == "C" { run.last_s2c_before } else { run.last_c2s_before };
                // the idle period cannot have started before the last packet this side received
                if r + 50 < last_rx + min_idle {
                    rep.violation(
                        format!("C17.idle.too-early:{side}:{}", case.trigger),
                        format!("{side} gave up at {r} ms: only {} ms after its last received packet ({last_rx} ms), negotiated idle timeout {min_idle} ms", r - last_rx.min(r)),
                        rj.clone(),
                    );
                } else {
                    rep.count("idle_not_before_checks");
                }
            }
        }
        // every op of this side
        for o in run.ops.iter().filter(|o| o.name.starts_with(side) && !o.name.contains("terminated")) {
            let pending_at_trigger = !o.later && o.resolved_ms.is_none_or(|r| r >= run.trigger_ms);
            if !o.later && !pending_at_trigger {
                rep.count("ops_resolved_before_trigger");
                continue;
            }
            let opname = o.name.clone();
            match (o.resolved_ms, o.ok) {
                (None, _) => {
                    rep.violation(
                        format!("C17.pending:{opname}:{tag}"),
                        format!("{opname} (started at {} ms) still pending {} ms after {tag} at {} ms; terminated()={}", o.started_ms, run.eval_ms.saturating_sub(run.trigger_ms), run.trigger_ms, t0.text),
                        rj.clone(),
                    );
                }
                (Some(r), Some(true)) => {
                    // an operation may legitimately complete between the trigger and the termination becoming
                    // visible on this side (e.g. the peer closes, data already in flight)
                    let term_ms = t0.resolved_ms.unwrap_or(u64::MAX);
                    if o.later || r > term_ms {
                        rep.violation(
                            format!("C17.ok-after-termination:{}", opname.trim_start_matches(['C', 'S'])),
                            format!("{opname} completed successfully at {r} ms after {side} had terminated at {term_ms} ms [{tag}]: {}", o.text),
                            rj.clone(),
                        );
                    } else {
                        rep.count("ops_completed_ok_before_termination_visible");
                    }
                }
                (Some(_), _) => {
                    rep.count(if o.later { "later_ops_failed_at_once" } else { "pending_ops_resolved_with_error" });
                    rep.set("op_kinds_resolved", vcore::fnv_str(&format!("{}:{}", opname.trim_start_matches(['C', 'S']), case.trigger)));
                    if opname.ends_with("read_gap_before_fin") && !o.later {
                        rep.count("pending_reads_with_known_final_size_and_gap_resolved");
                    }
                    if let (Some(k), Some(tk)) = (&o.kind, &t0.kind) {
                        if k != tk {
                            rep.violation(
                                format!("C17.wrong-error:{}:{}", opname.trim_start_matches(['C', 'S']), case.trigger),
                                format!("{opname} failed with {k}, the connection's terminating error is {tk} [{tag}]: {}", o.text),
                                rj.clone(),
                            );
                        }
                    }
                }
            }
        }
    }
    // qlog: state sequence only moves forward; no application data sent after closing
    for vp in [VantagePointType::Client, VantagePointType::Server] {
        let mut rank = 0u32;
        let mut ended = false;
        for (v, e) in run.events.iter().filter(|(v, _)| *v == vp) {
            let _ = v;
            let Ok(j) = serde_json::to_value(e) else { continue };
            match j["name"].as_str() {
                Some("quic:connection_state_updated") => {
                    let new = j["data"]["new"].as_str().unwrap_or("");
                    rep.count("state_updates_seen");
                    if let Some(r) = state_rank(new) {
                        if r <= rank {
                            rep.violation(format!("C17.state.backwards:{new}"), format!("{vp:?} connection state went to {new} after a later state (rank {rank}) [{tag}]"), rj.clone());
                        }
                        rank = rank.max(r);
                    }
                    if matches!(new, "closing" | "draining" | "closed") {
                        ended = true;
                    }
                }
                Some("quic:packet_sent") if ended => {
                    if let Some(frames) = j["data"]["frames"].as_array() {
                        for f in frames {
                            if matches!(f["frame_type"].as_str(), Some("stream" | "datagram")) {
                                rep.violation(format!("C17.data-after-close:{}", f["frame_type"].as_str().unwrap()), format!("{vp:?} sent a {} frame after it entered closing/draining [{tag}]", f["frame_type"]), rj.clone());
                            }
                        }
                    }
                    rep.count("packets_sent_after_close_checked");
                }
                _ => {}
            }
        }
    }
}

pub fn gen_case(rng: &mut Rng, seed: u64, idx: u64) -> Case {
    // peer-refuse: the server's auther refuses the client at the ClientHello, so the peer's CONNECTION_CLOSE
    // arrives in an Initial packet, before the client knows the server's transport parameters
    let triggers = ["local-close", "peer-close", "both-close", "proto-error", "blackout", "idle", "peer-refuse"];
    let trigger = triggers[(idx % 7) as usize];
    let phase = match trigger {
        "peer-refuse" => "pre",
        "proto-error" | "idle" => "post",
        _ => *rng.pick(&["pre", "mid", "post", "post"]),
    };
    let idles = [1000u64, 5000, 30_000, 0];
    let (ic, is) = match trigger {
        "idle" | "blackout" => (*rng.pick(&idles), *rng.pick(&idles)),
        _ => (30_000, 30_000),
    };
    Case { seed, trigger: trigger.into(), phase: phase.into(), latency_ms: *rng.pick(&[1u64, 10, 40]), idle_client_ms: ic, idle_server_ms: is }
}

pub fn run(args: &Args, rep: &mut Report) {
    rep.rule = "scenario = (trigger kind, phase, latency, idle timeouts) with ~22 operations pending on both sides; distinct = distinct (trigger, phase, latency, idle pair); \
                non-trivial = at least one operation was pending at the trigger and resolved with an error afterwards"
        .into();
    if let Some(path) = args.get("replay") {
        let v: Value = serde_json::from_str(&std::fs::read_to_string(path).unwrap()).unwrap();
        let v = if v.get("replay").is_some() { v["replay"].clone() } else { v };
        let case = Case::from_json(&v);
        let run = run_case(&case);
        if args.flag("dump") {
            eprintln!("trigger at {} ms, eval at {} ms, completed {}", run.trigger_ms, run.eval_ms, run.completed);
            for o in &run.ops {
                eprintln!("  {:<22} start {:>6} resolved {:?} ok {:?} kind {:?} {}", o.name, o.started_ms, o.resolved_ms, o.ok, o.kind, o.text.chars().take(100).collect::<String>());
            }
        }
        rep.evaluations += 1;
        judge(rep, &case, &run);
        return;
    }
    let thorough = args.get("tier") == Some("thorough");
    let shard = args.u64("shard", 0);
    let shards = args.u64("shards", 1);
    let n = args.budget(if thorough { 120 } else { 12 });
    let mut rng = Rng::new(args.seed() ^ 0xc17).fork(shard);
    for i in 0..n {
        let sseed = rng.next_u64();
        let mut r = rng.fork(i);
        let case = gen_case(&mut r, sseed, i * shards + shard);
        let before = rep.get("pending_ops_resolved_with_error");
        let run = run_case(&case);
        rep.evaluations += 1;
        judge(rep, &case, &run);
        if rep.get("pending_ops_resolved_with_error") > before {
            rep.distinct(vcore::fnv_str(&format!("{}{}{}{}{}", case.trigger, case.phase, case.latency_ms, case.idle_client_ms, case.idle_server_ms)));
        }
        rep.count(&format!("trigger_{}", case.trigger));
        rep.count(&format!("phase_{}", case.phase));
        if i < 2 {
            rep.sample(json!({"case": case.to_json(), "trigger_ms": run.trigger_ms, "ops": run.ops.iter().map(|o| json!({"op": o.name, "resolved_ms": o.resolved_ms, "ok": o.ok, "kind": o.kind})).collect::<Vec<_>>()}));
        }
    }
}
