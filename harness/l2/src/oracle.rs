//! Oracles over a scenario Outcome, shared by the L2 legs of several properties.
use std::collections::{BTreeMap, HashMap, HashSet};

use qevent::VantagePointType;
use serde_json::Value;

use crate::scenario::Outcome;

pub type Finding = (String, String); // (clause[:trigger], what)

fn space_of(pt: &str) -> &'static str {
    match pt {
        "initial" => "initial",
        "handshake" => "handshake",
        "0RTT" | "1RTT" => "data",
        _ => "other",
    }
}

/// Every stream read returned exactly the byte written at that offset; EOF only after the last byte.
pub fn check_data(out: &Outcome) -> Vec<Finding> {
    let mut v = vec![];
    for (i, j) in out.shared.jobs.iter().enumerate() {
        if let Some(off) = j.bad_at {
            v.push(("data.altered".into(), format!("job {i} ({}, sid {:?}): byte at offset {off} differs from what was written", j.kind, j.sid)));
        }
        if j.read > j.size {
            v.push(("data.excess".into(), format!("job {i} ({}): reader got {} bytes, writer wrote {}", j.kind, j.read, j.size)));
        }
        if j.kind == "Hang" {
            // never finished by the writer: an end-of-stream would be invented
            if j.eof {
                v.push(("data.eof-early".into(), format!("job {i} (Hang): end of stream reported although the writer never finished")));
            }
            continue;
        }
        if j.eof && j.read != j.size {
            v.push(("data.eof-early".into(), format!("job {i} ({}): end of stream after {} of {} bytes", j.kind, j.read, j.size)));
        }
    }
    for (sid, (read, eof, bad, _)) in &out.shared.server_uni {
        let size = out.shared.jobs.iter().find(|j| j.sid == Some(*sid)).map(|j| j.size);
        if let Some(off) = bad {
            v.push(("data.altered".into(), format!("server read of uni stream {sid}: byte at offset {off} differs")));
        }
        if let Some(size) = size {
            if *read > size {
                v.push(("data.excess".into(), format!("server read {read} bytes of uni stream {sid}, writer wrote {size}")));
            }
            if *eof && *read != size {
                v.push(("data.eof-early".into(), format!("server saw end of uni stream {sid} after {read} of {size} bytes")));
            }
        }
    }
    v
}

pub fn check_datagrams(out: &Outcome) -> Vec<Finding> {
    let mut v = vec![];
    for (who, rcvd, from_client) in [("server", &out.shared.dgram_rcvd_server, true), ("client", &out.shared.dgram_rcvd_client, false)] {
        let accepted: Vec<u64> = out.shared.dgram_accepted.iter().filter(|(c, _, _)| *c == from_client).map(|(_, id, _)| *id).collect();
        let mut last_pos: Option<usize> = None;
        let mut seen = HashSet::new();
        for (id, ok) in rcvd {
            if !ok {
                v.push(("datagram.altered".into(), format!("{who} read a datagram (id {id}) whose payload is not what was sent")));
                continue;
            }
            match accepted.iter().position(|a| a == id) {
                None => v.push(("datagram.unsent".into(), format!("{who} read datagram id {id} that the peer never sent"))),
                Some(p) => {
                    // duplicates can only come from duplicated packets being accepted twice
                    if !seen.insert(*id) {
                        v.push(("datagram.duplicate".into(), format!("{who} read datagram id {id} twice")));
                    }
                    let _ = last_pos.replace(p);
                }
            }
        }
    }
    v
}

pub fn check_panics(out: &Outcome) -> Vec<Finding> {
    out.panics
        .iter()
        .map(|p| {
            let loc = vcore::panics::short_location(&p.location);
            (format!("panic:{loc}"), format!("panic in thread {}: {} at {}", p.thread, p.message, loc))
        })
        .collect()
}

pub struct PnStats {
    pub received: u64,
    pub sent: u64,
    pub dropped_events: u64,
    pub lost_events: u64,
}

/// qlog-derived: accepted packets are pairwise distinct per (vantage, connection, space);
/// sent packet numbers strictly increase per (vantage, connection, space).
pub fn check_packet_numbers(out: &Outcome, want_rx: bool, want_tx: bool) -> (Vec<Finding>, PnStats) {
    let mut v = vec![];
    let mut rx: HashSet<(u8, String, &'static str, u64)> = HashSet::new();
    let mut tx: HashMap<(u8, String, &'static str), u64> = HashMap::new();
    let mut st = PnStats { received: 0, sent: 0, dropped_events: 0, lost_events: 0 };
    let mut ended: HashSet<(u8, String)> = HashSet::new();
    for (vp, e) in &out.events {
        let j = match serde_json::to_value(e) {
            Ok(j) => j,
            Err(_) => continue,
        };
        let name = j["name"].as_str().unwrap_or("");
        let vpn = match vp {
            VantagePointType::Client => 0u8,
            VantagePointType::Server => 1,
            _ => 2,
        };
        let gid = j["group_id"].as_str().unwrap_or("").to_string();
        if name == "quic:connection_state_updated" {
            // once an endpoint is closing/draining it only scans arriving packets for a
            // CONNECTION_CLOSE frame and acts on nothing else: such packets are not "accepted"
            if matches!(j["data"]["new"].as_str(), Some("closing" | "draining" | "closed")) {
                ended.insert((vpn, gid.clone()));
            }
            continue;
        }
        if ended.contains(&(vpn, gid.clone())) {
            continue;
        }
        match name {
            "quic:packet_received" | "quic:packet_sent" => {
                let h = &j["data"]["header"];
                let Some(pn) = h["packet_number"].as_u64() else { continue };
                let sp = space_of(h["packet_type"].as_str().unwrap_or(""));
                if sp == "other" {
                    continue;
                }
                if name == "quic:packet_received" {
                    st.received += 1;
                    if want_rx && !rx.insert((vpn, gid.clone(), sp, pn)) {
                        v.push(("replay.accepted-twice".into(), format!("{vp:?} accepted packet number {pn} of space {sp} twice (connection {gid})")));
                    }
                } else {
                    st.sent += 1;
                    if want_tx {
                        let k = (vpn, gid.clone(), sp);
                        if let Some(prev) = tx.get(&k) {
                            if pn <= *prev {
                                v.push(("pn.not-increasing".into(), format!("{vp:?} sent packet number {pn} after {prev} in space {sp} (connection {gid})")));
                            }
                        }
                        let e = tx.entry(k).or_insert(pn);
                        *e = (*e).max(pn);
                    }
                }
            }
            "quic:packet_dropped" => st.dropped_events += 1,
            "quic:packet_lost" => st.lost_events += 1,
            _ => {}
        }
    }
    (v, st)
}

pub fn event_name_counts(out: &Outcome) -> BTreeMap<String, u64> {
    let mut m = BTreeMap::new();
    for (_, e) in &out.events {
        if let Ok(Value::Object(o)) = serde_json::to_value(e) {
            if let Some(n) = o.get("name").and_then(|n| n.as_str()) {
                *m.entry(n.to_string()).or_insert(0) += 1;
            }
        }
    }
    m
}
