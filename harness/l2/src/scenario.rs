//! Generic seeded scenario over a World: transport-parameter configuration, fault profiles per
//! direction, a list of application jobs with position-coded (PRF) data, and an Outcome record
//! that the per-property monitors evaluate.
use std::{
    collections::BTreeMap,
    sync::{Arc, Mutex},
    time::Duration,
};

use dquic::prelude::*;
use qbase::param::{ClientParameters, ServerParameters};
use qevent::VantagePointType;
use serde_json::{Value, json};
use tokio::io::{AsyncReadExt, AsyncWriteExt};
use vcore::Rng;

use crate::{
    sim::{FaultProfile, SimNet},
    world::{LogMode, World, WorldCfg, client_addr, server_addr},
};

#[derive(Clone, Debug)]
pub struct ParamCfg {
    pub max_data: u32,
    pub stream_data: u32,
    pub streams_bidi: u32,
    pub streams_uni: u32,
    pub idle_client_ms: u64,
    pub idle_server_ms: u64,
    pub max_ack_delay_ms: u64,
    pub datagram: u32,
    /// max_datagram_frame_size advertised by the server when it differs from the client's (`datagram`)
    pub datagram_server: Option<u32>,
    pub mtu: usize,
    /// server certificate repeated this many times in its chain (size of the server's first flight)
    pub cert_repeat: usize,
    /// extra ALPN entries offered by the client (size of its Initial packet, hence of the server's credit)
    pub alpn_pad: usize,
    /// the client trusts an unrelated CA (the handshake fails with a TLS alert)
    pub wrong_ca: bool,
    /// at this virtual time a stray 0-RTT long-header packet that names the connection's original destination
    /// connection id reaches the server from an unrelated address (the server has no 0-RTT keys: it must drop it)
    pub stray_0rtt_ms: Option<u64>,
}

impl Default for ParamCfg {
    fn default() -> Self {
        ParamCfg {
            max_data: 1 << 20,
            stream_data: 1 << 20,
            streams_bidi: 100,
            streams_uni: 100,
            idle_client_ms: 120_000,
            idle_server_ms: 120_000,
            max_ack_delay_ms: 25,
            datagram: 0,
            datagram_server: None,
            mtu: 1500,
            cert_repeat: 1,
            alpn_pad: 0,
            wrong_ca: false,
            stray_0rtt_ms: None,
        }
    }
}

impl ParamCfg {
    pub fn to_json(&self) -> Value {
        json!({"max_data": self.max_data, "stream_data": self.stream_data, "streams_bidi": self.streams_bidi,
               "streams_uni": self.streams_uni, "idle_client_ms": self.idle_client_ms, "idle_server_ms": self.idle_server_ms,
               "max_ack_delay_ms": self.max_ack_delay_ms, "datagram": self.datagram, "datagram_server": self.datagram_server, "mtu": self.mtu,
               "cert_repeat": self.cert_repeat, "alpn_pad": self.alpn_pad, "wrong_ca": self.wrong_ca, "stray_0rtt_ms": self.stray_0rtt_ms})
    }

    pub fn from_json(v: &Value) -> Self {
        let g = |k: &str, d: u64| v.get(k).and_then(|x| x.as_u64()).unwrap_or(d);
        let d = ParamCfg::default();
        ParamCfg {
            max_data: g("max_data", d.max_data as u64) as u32,
            stream_data: g("stream_data", d.stream_data as u64) as u32,
            streams_bidi: g("streams_bidi", d.streams_bidi as u64) as u32,
            streams_uni: g("streams_uni", d.streams_uni as u64) as u32,
            idle_client_ms: g("idle_client_ms", d.idle_client_ms),
            idle_server_ms: g("idle_server_ms", d.idle_server_ms),
            max_ack_delay_ms: g("max_ack_delay_ms", d.max_ack_delay_ms),
            datagram: g("datagram", 0) as u32,
            datagram_server: v.get("datagram_server").and_then(|x| x.as_u64()).map(|x| x as u32),
            mtu: g("mtu", 1500) as usize,
            cert_repeat: g("cert_repeat", 1) as usize,
            alpn_pad: g("alpn_pad", 0) as usize,
            wrong_ca: v.get("wrong_ca").and_then(|x| x.as_bool()).unwrap_or(false),
            stray_0rtt_ms: v.get("stray_0rtt_ms").and_then(|x| x.as_u64()),
        }
    }

    fn fill<R>(&self, p: &mut qbase::param::core::Parameters<R>, idle_ms: u64)
    where
        R: qbase::role::IntoRole + Default,
    {
        for (id, v) in [
            (ParameterId::InitialMaxStreamsBidi, self.streams_bidi),
            (ParameterId::InitialMaxStreamsUni, self.streams_uni),
            (ParameterId::InitialMaxData, self.max_data),
            (ParameterId::InitialMaxStreamDataBidiLocal, self.stream_data),
            (ParameterId::InitialMaxStreamDataBidiRemote, self.stream_data),
            (ParameterId::InitialMaxStreamDataUni, self.stream_data),
            (ParameterId::ActiveConnectionIdLimit, 10),
            (ParameterId::MaxDatagramFrameSize, self.datagram),
        ] {
            p.set(id, v).expect("legal parameter");
        }
        p.set(ParameterId::MaxIdleTimeout, Duration::from_millis(idle_ms)).expect("idle");
        p.set(ParameterId::MaxAckDelay, Duration::from_millis(self.max_ack_delay_ms)).expect("ack delay");
    }

    pub fn client(&self) -> ClientParameters {
        let mut p = ClientParameters::default();
        self.fill(&mut p, self.idle_client_ms);
        p
    }

    pub fn server(&self) -> ServerParameters {
        let mut p = ServerParameters::default();
        self.fill(&mut p, self.idle_server_ms);
        if let Some(d) = self.datagram_server {
            p.set(ParameterId::MaxDatagramFrameSize, d).expect("legal parameter");
        }
        p
    }
}

#[derive(Clone, Debug, PartialEq)]
pub enum JobKind {
    /// client opens a bidi stream, writes `size` PRF bytes, server echoes, client validates
    BidiEcho,
    /// client opens a uni stream and writes; server validates
    UniC2S,
    /// server opens a uni stream and writes; client validates
    UniS2C,
    /// client opens a bidi stream, writes `size` bytes without finishing and then reads until the
    /// connection fails: an operation that stays pending on a quiescent connection
    Hang,
}

#[derive(Clone, Debug)]
pub struct Job {
    pub kind: JobKind,
    pub size: usize,
    pub chunk: usize,
}

#[derive(Clone, Debug, Default)]
pub struct JobResult {
    pub kind: String,
    pub sid: Option<u64>,
    pub size: usize,
    pub wrote: usize,
    pub write_done: bool,
    pub read: usize,
    pub eof: bool,
    /// first offset at which a read byte differed from the PRF value
    pub bad_at: Option<u64>,
    pub write_err: Option<String>,
    pub read_err: Option<String>,
    pub open_err: Option<String>,
    pub done_ms: Option<u64>,
}

impl JobResult {
    pub fn complete(&self) -> bool {
        if self.kind == "Hang" {
            return self.read_err.is_some() || self.open_err.is_some();
        }
        self.write_done && self.eof && self.read == self.size && self.bad_at.is_none()
    }
    pub fn to_json(&self) -> Value {
        json!({"kind": self.kind, "sid": self.sid, "size": self.size, "wrote": self.wrote, "write_done": self.write_done,
               "read": self.read, "eof": self.eof, "bad_at": self.bad_at, "write_err": self.write_err,
               "read_err": self.read_err, "open_err": self.open_err, "done_ms": self.done_ms})
    }
}

#[derive(Clone, Debug)]
pub struct Spec {
    pub seed: u64,
    pub params: ParamCfg,
    pub c2s: FaultProfile,
    pub s2c: FaultProfile,
    pub jobs: Vec<Job>,
    pub datagrams: Vec<(bool, usize)>, // (from_client, size)
    pub log: LogMode,
    pub with_qlog: bool,
    pub deadline: Duration,
    /// close the connection cleanly from the client when all jobs are done
    pub clean_close: bool,
}

impl Spec {
    pub fn to_json(&self) -> Value {
        json!({
            "seed": self.seed, "params": self.params.to_json(), "c2s": self.c2s.to_json(), "s2c": self.s2c.to_json(),
            "jobs": self.jobs.iter().map(|j| json!([format!("{:?}", j.kind), j.size, j.chunk])).collect::<Vec<_>>(),
            "datagrams": self.datagrams.iter().map(|(c, s)| json!([c, s])).collect::<Vec<_>>(),
            "log": format!("{:?}", self.log), "with_qlog": self.with_qlog,
            "deadline_ms": self.deadline.as_millis() as u64, "clean_close": self.clean_close,
        })
    }
}

impl Spec {
    pub fn from_json(v: &Value) -> Spec {
        let jobs = v["jobs"]
            .as_array()
            .map(|a| {
                a.iter()
                    .map(|j| Job {
                        kind: match j[0].as_str().unwrap_or("") {
                            "UniC2S" => JobKind::UniC2S,
                            "UniS2C" => JobKind::UniS2C,
                            "Hang" => JobKind::Hang,
                            _ => JobKind::BidiEcho,
                        },
                        size: j[1].as_u64().unwrap_or(0) as usize,
                        chunk: j[2].as_u64().unwrap_or(4096) as usize,
                    })
                    .collect()
            })
            .unwrap_or_default();
        Spec {
            seed: v["seed"].as_u64().unwrap_or(1),
            params: ParamCfg::from_json(&v["params"]),
            c2s: FaultProfile::from_json(&v["c2s"]),
            s2c: FaultProfile::from_json(&v["s2c"]),
            jobs,
            datagrams: v["datagrams"]
                .as_array()
                .map(|a| a.iter().map(|d| (d[0].as_bool().unwrap_or(true), d[1].as_u64().unwrap_or(8) as usize)).collect())
                .unwrap_or_default(),
            log: match v["log"].as_str().unwrap_or("Capture") {
                "Noop" => LogMode::Noop,
                "Filtered" => LogMode::Filtered,
                "Raw" => LogMode::Raw,
                _ => LogMode::Capture,
            },
            with_qlog: v["with_qlog"].as_bool().unwrap_or(true),
            deadline: Duration::from_millis(v["deadline_ms"].as_u64().unwrap_or(60_000)),
            clean_close: v["clean_close"].as_bool().unwrap_or(true),
        }
    }
}

#[derive(Default)]
pub struct Shared {
    pub jobs: Vec<JobResult>,
    /// uni streams validated by the server: sid -> (read, eof, bad_at, err)
    pub server_uni: BTreeMap<u64, (usize, bool, Option<u64>, Option<String>)>,
    pub handshake_ms: Option<u64>,
    pub handshake_err: Option<String>,
    pub server_handshake_ms: Option<u64>,
    pub client_term: Option<String>,
    pub server_term: Option<String>,
    pub client_term_ms: Option<u64>,
    pub server_term_ms: Option<u64>,
    pub dgram_rcvd_client: Vec<(u64, bool)>, // (id, payload ok)
    pub dgram_rcvd_server: Vec<(u64, bool)>,
    pub dgram_send_err: Vec<String>,
    pub dgram_accepted: Vec<(bool, u64, usize)>,
    pub accepted_conns: u32,
    pub all_done_ms: Option<u64>,
}

pub struct Outcome {
    pub spec: Spec,
    pub shared: Shared,
    pub finished: bool,
    pub end_ms: u64,
    pub panics: Vec<vcore::panics::PanicRecord>,
    pub events: Vec<(VantagePointType, qevent::Event)>,
    pub net: SimNet,
}

fn prf(seed: u64, sid: u64, off: u64) -> u8 {
    vcore::prf_byte(seed, sid.wrapping_add(0x5151), off)
}

pub fn dgram_payload(seed: u64, id: u64, size: usize) -> Vec<u8> {
    let mut v = vec![0u8; size.max(8)];
    v[..8].copy_from_slice(&id.to_be_bytes());
    for i in 8..v.len() {
        v[i] = vcore::prf_byte(seed, id ^ 0xd6, i as u64);
    }
    v
}

pub fn dgram_check(seed: u64, d: &[u8]) -> (u64, bool) {
    if d.len() < 8 {
        return (u64::MAX, false);
    }
    let id = u64::from_be_bytes(d[..8].try_into().unwrap());
    let ok = d[8..].iter().enumerate().all(|(k, b)| *b == vcore::prf_byte(seed, id ^ 0xd6, (k + 8) as u64));
    (id, ok)
}

async fn write_prf(seed: u64, sid: u64, w: &mut StreamWriter, size: usize, chunk: usize, sh: &Arc<Mutex<Shared>>, idx: Option<usize>) -> Result<(), String> {
    let mut off = 0usize;
    let mut buf = vec![0u8; chunk.max(1)];
    while off < size {
        let n = buf.len().min(size - off);
        for k in 0..n {
            buf[k] = prf(seed, sid, (off + k) as u64);
        }
        w.write_all(&buf[..n]).await.map_err(|e| format!("write: {e}"))?;
        off += n;
        if let Some(i) = idx {
            sh.lock().unwrap().jobs[i].wrote = off;
        }
    }
    w.shutdown().await.map_err(|e| format!("shutdown: {e}"))?;
    Ok(())
}

/// read to EOF validating the PRF; returns (read, eof, bad_at, err)
async fn read_prf(seed: u64, sid: u64, r: &mut StreamReader, mut progress: impl FnMut(usize)) -> (usize, bool, Option<u64>, Option<String>) {
    let mut buf = vec![0u8; 4096];
    let mut nread = 0usize;
    let mut bad = None;
    loop {
        match r.read(&mut buf).await {
            Ok(0) => return (nread, true, bad, None),
            Ok(n) => {
                for k in 0..n {
                    if bad.is_none() && buf[k] != prf(seed, sid, (nread + k) as u64) {
                        bad = Some((nread + k) as u64);
                    }
                }
                nread += n;
                progress(nread);
            }
            Err(e) => return (nread, false, bad, Some(format!("{e}"))),
        }
    }
}

fn errkind(e: &Error) -> String {
    format!("{:?}", e.kind())
}

/// Build the world, run the jobs, collect the outcome.  Never panics on scenario failure; a
/// scenario that does not finish before the virtual deadline returns `finished = false`.
pub fn run(spec: &Spec) -> Outcome {
    run_with(spec, None)
}

pub type NetHook = Box<dyn FnOnce(&SimNet) + Send>;

/// like `run`; `hook` is called once with the network right after it was created (before any
/// datagram is sent), so a monitor can install online observers.
pub fn run_with(spec: &Spec, hook: Option<NetHook>) -> Outcome {
    let sh = Arc::new(Mutex::new(Shared::default()));
    let pan0 = vcore::panics::count();
    let spec2 = spec.clone();
    let sh2 = sh.clone();
    let holder: Arc<Mutex<Option<(SimNet, Arc<crate::world::EventStore>)>>> = Arc::new(Mutex::new(None));
    let holder2 = holder.clone();
    let res = crate::world::run_paused(spec.deadline, async move {
        let spec = spec2;
        let sh = sh2;
        let cfg = WorldCfg {
            client_params: spec.params.client(),
            server_params: spec.params.server(),
            log: spec.log,
            with_qlog: spec.with_qlog,
            mtu: spec.params.mtu,
            cert_repeat: spec.params.cert_repeat,
            client_alpn_pad: spec.params.alpn_pad,
            client_wrong_ca: spec.params.wrong_ca,
            ..Default::default()
        };
        let w = World::new_with(spec.seed, cfg, hook).await;
        *holder2.lock().unwrap() = Some((w.net.clone(), w.events.clone()));
        w.net.set_profile_towards(server_addr(), spec.c2s.clone());
        w.net.set_profile_towards(client_addr(), spec.s2c.clone());
        let seed = spec.seed;
        let net = w.net.clone();
        {
            let mut g = sh.lock().unwrap();
            g.jobs = spec
                .jobs
                .iter()
                .map(|j| JobResult { kind: format!("{:?}", j.kind), size: j.size, ..Default::default() })
                .collect();
        }
        // ---- server application ----
        let s2c_jobs: Vec<(usize, Job)> = spec.jobs.iter().cloned().enumerate().filter(|(_, j)| j.kind == JobKind::UniS2C).collect();
        let srv_dgrams: Vec<(u64, usize)> = spec.datagrams.iter().enumerate().filter(|(_, d)| !d.0).map(|(i, d)| (i as u64, d.1)).collect();
        let listeners = w.listeners.clone();
        let shs = sh.clone();
        let nets = net.clone();
        tokio::spawn(async move {
            while let Ok((conn, _name, _pathway, _link)) = listeners.accept().await {
                shs.lock().unwrap().accepted_conns += 1;
                let conn = Arc::new(conn);
                // termination watcher
                {
                    let c = conn.clone();
                    let sh = shs.clone();
                    let net = nets.clone();
                    tokio::spawn(async move {
                        let e = c.terminated().await;
                        let mut g = sh.lock().unwrap();
                        g.server_term = Some(errkind(&e));
                        g.server_term_ms = Some(net.now().as_millis() as u64);
                    });
                }
                {
                    let c = conn.clone();
                    let sh = shs.clone();
                    let net = nets.clone();
                    tokio::spawn(async move {
                        if c.handshaked().await.is_ok() {
                            sh.lock().unwrap().server_handshake_ms = Some(net.now().as_millis() as u64);
                        }
                    });
                }
                // echo bidi
                {
                    let c = conn.clone();
                    tokio::spawn(async move {
                        while let Ok((_sid, (reader, writer))) = c.accept_bi_stream().await {
                            tokio::spawn(crate::workload::echo_stream(reader, writer));
                        }
                    });
                }
                // sink uni with validation
                {
                    let c = conn.clone();
                    let sh = shs.clone();
                    tokio::spawn(async move {
                        while let Ok((sid, mut reader)) = c.accept_uni_stream().await {
                            let sh = sh.clone();
                            tokio::spawn(async move {
                                let s = sid.id() << 2 | 2; // not the wire id; only a stable key: use Into<u64>
                                let _ = s;
                                let key: u64 = sid.into();
                                let sh2 = sh.clone();
                                let r = read_prf(seed, key, &mut reader, |n| {
                                    sh2.lock().unwrap().server_uni.entry(key).or_insert((0, false, None, None)).0 = n;
                                })
                                .await;
                                sh.lock().unwrap().server_uni.insert(key, r);
                            });
                        }
                    });
                }
                // server-initiated uni streams
                for (idx, job) in s2c_jobs.clone() {
                    let c = conn.clone();
                    let sh = shs.clone();
                    tokio::spawn(async move {
                        match c.open_uni_stream().await {
                            Ok(Some((sid, mut w))) => {
                                let key: u64 = sid.into();
                                sh.lock().unwrap().jobs[idx].sid = Some(key);
                                match write_prf(seed, key, &mut w, job.size, job.chunk, &sh, Some(idx)).await {
                                    Ok(()) => sh.lock().unwrap().jobs[idx].write_done = true,
                                    Err(e) => sh.lock().unwrap().jobs[idx].write_err = Some(e),
                                }
                            }
                            Ok(None) => sh.lock().unwrap().jobs[idx].open_err = Some("stream ids exhausted".into()),
                            Err(e) => sh.lock().unwrap().jobs[idx].open_err = Some(errkind(&e)),
                        }
                    });
                }
                // datagrams
                if let Ok(Ok(mut rd)) = conn.datagram_reader() {
                    let sh = shs.clone();
                    tokio::spawn(async move {
                        while let Ok(d) = rd.recv().await {
                            sh.lock().unwrap().dgram_rcvd_server.push(dgram_check(seed, &d));
                        }
                    });
                }
                if !srv_dgrams.is_empty() {
                    let c = conn.clone();
                    let sh = shs.clone();
                    let list = srv_dgrams.clone();
                    tokio::spawn(async move {
                        match c.datagram_writer().await {
                            Ok(Ok(wr)) => {
                                for (id, size) in list {
                                    match wr.send(&dgram_payload(seed, id, size)) {
                                        Ok(()) => sh.lock().unwrap().dgram_accepted.push((false, id, size)),
                                        Err(e) => sh.lock().unwrap().dgram_send_err.push(format!("server {id}: {e}")),
                                    }
                                    tokio::time::sleep(Duration::from_millis(5)).await;
                                }
                            }
                            Ok(Err(e)) => sh.lock().unwrap().dgram_send_err.push(format!("server writer: {e}")),
                            Err(e) => sh.lock().unwrap().dgram_send_err.push(format!("server writer: {}", errkind(&e))),
                        }
                    });
                }
            }
        });

        // ---- client application ----
        let conn = Arc::new(w.connect().await);
        {
            let c = conn.clone();
            let sh = sh.clone();
            let net = net.clone();
            tokio::spawn(async move {
                let e = c.terminated().await;
                let mut g = sh.lock().unwrap();
                g.client_term = Some(errkind(&e));
                g.client_term_ms = Some(net.now().as_millis() as u64);
            });
        }
        {
            let c = conn.clone();
            let sh = sh.clone();
            let net = net.clone();
            tokio::spawn(async move {
                match c.handshaked().await {
                    Ok(()) => sh.lock().unwrap().handshake_ms = Some(net.now().as_millis() as u64),
                    Err(e) => sh.lock().unwrap().handshake_err = Some(errkind(&e)),
                }
            });
        }
        if let Some(at) = spec.params.stray_0rtt_ms {
            let net = net.clone();
            tokio::spawn(async move {
                tokio::time::sleep(Duration::from_millis(at)).await;
                if let Some(dcid) = net.first_dcid() {
                    // long header, fixed bit, type 0-RTT; version 1; the connection's original DCID; an 8-byte SCID;
                    // Length 40; 40 bytes of "protected" payload
                    let mut p = vec![0xd3u8, 0, 0, 0, 1, dcid.len() as u8];
                    p.extend_from_slice(&dcid);
                    p.push(8);
                    p.extend_from_slice(&[0xa5; 8]);
                    p.extend_from_slice(&[0x40, 40]);
                    p.extend((0..40u8).map(|i| i.wrapping_mul(37) ^ 0x5c));
                    net.inject("10.0.0.9:9999".parse().unwrap(), crate::world::server_addr(), p, Duration::from_millis(1));
                }
            });
        }
        let mut tasks = vec![];
        let n_s2c = spec.jobs.iter().filter(|j| j.kind == JobKind::UniS2C).count();
        // client accepts server-initiated uni streams and validates
        if n_s2c > 0 {
            let c = conn.clone();
            let sh = sh.clone();
            let net = net.clone();
            tasks.push(tokio::spawn(async move {
                let mut left = n_s2c;
                let mut readers = vec![];
                while left > 0 {
                    match c.accept_uni_stream().await {
                        Ok((sid, mut reader)) => {
                            left -= 1;
                            let key: u64 = sid.into();
                            let sh = sh.clone();
                            let net = net.clone();
                            readers.push(tokio::spawn(async move {
                                let sh2 = sh.clone();
                                let r = read_prf(seed, key, &mut reader, |n| {
                                    let mut g = sh2.lock().unwrap();
                                    if let Some(j) = g.jobs.iter_mut().find(|j| j.sid == Some(key)) {
                                        j.read = n;
                                    }
                                })
                                .await;
                                // the writer registers sid before writing; by the time data arrives it is set
                                let mut g = sh.lock().unwrap();
                                if let Some(j) = g.jobs.iter_mut().find(|j| j.sid == Some(key)) {
                                    j.read = r.0;
                                    j.eof = r.1;
                                    j.bad_at = r.2;
                                    j.read_err = r.3;
                                    j.done_ms = Some(net.now().as_millis() as u64);
                                }
                            }));
                        }
                        Err(_) => break,
                    }
                }
                for r in readers {
                    let _ = r.await;
                }
            }));
        }
        for (idx, job) in spec.jobs.iter().cloned().enumerate() {
            let c = conn.clone();
            let sh = sh.clone();
            let net = net.clone();
            match job.kind {
                JobKind::BidiEcho => tasks.push(tokio::spawn(async move {
                    match c.open_bi_stream().await {
                        Ok(Some((sid, (mut reader, mut writer)))) => {
                            let key: u64 = sid.into();
                            sh.lock().unwrap().jobs[idx].sid = Some(key);
                            let shw = sh.clone();
                            let wr = async {
                                match write_prf(seed, key, &mut writer, job.size, job.chunk, &shw, Some(idx)).await {
                                    Ok(()) => shw.lock().unwrap().jobs[idx].write_done = true,
                                    Err(e) => shw.lock().unwrap().jobs[idx].write_err = Some(e),
                                }
                            };
                            let shr = sh.clone();
                            let rd = async {
                                let shp = shr.clone();
                                let r = read_prf(seed, key, &mut reader, |n| shp.lock().unwrap().jobs[idx].read = n).await;
                                let mut g = shr.lock().unwrap();
                                let j = &mut g.jobs[idx];
                                j.read = r.0;
                                j.eof = r.1;
                                j.bad_at = r.2;
                                j.read_err = r.3;
                            };
                            tokio::join!(wr, rd);
                            sh.lock().unwrap().jobs[idx].done_ms = Some(net.now().as_millis() as u64);
                        }
                        Ok(None) => sh.lock().unwrap().jobs[idx].open_err = Some("stream ids exhausted".into()),
                        Err(e) => sh.lock().unwrap().jobs[idx].open_err = Some(errkind(&e)),
                    }
                })),
                JobKind::UniC2S => tasks.push(tokio::spawn(async move {
                    match c.open_uni_stream().await {
                        Ok(Some((sid, mut writer))) => {
                            let key: u64 = sid.into();
                            sh.lock().unwrap().jobs[idx].sid = Some(key);
                            match write_prf(seed, key, &mut writer, job.size, job.chunk, &sh, Some(idx)).await {
                                Ok(()) => sh.lock().unwrap().jobs[idx].write_done = true,
                                Err(e) => sh.lock().unwrap().jobs[idx].write_err = Some(e),
                            }
                            // wait until the server has read it all (bounded by the scenario deadline)
                            loop {
                                {
                                    let mut g = sh.lock().unwrap();
                                    if let Some(r) = g.server_uni.get(&key).cloned() {
                                        if r.1 || r.3.is_some() {
                                            let j = &mut g.jobs[idx];
                                            j.read = r.0;
                                            j.eof = r.1;
                                            j.bad_at = r.2;
                                            j.read_err = r.3;
                                            j.done_ms = Some(net.now().as_millis() as u64);
                                            break;
                                        }
                                    }
                                    if g.jobs[idx].write_err.is_some() {
                                        break;
                                    }
                                }
                                tokio::time::sleep(Duration::from_millis(20)).await;
                            }
                        }
                        Ok(None) => sh.lock().unwrap().jobs[idx].open_err = Some("stream ids exhausted".into()),
                        Err(e) => sh.lock().unwrap().jobs[idx].open_err = Some(errkind(&e)),
                    }
                })),
                JobKind::Hang => tasks.push(tokio::spawn(async move {
                    match c.open_bi_stream().await {
                        Ok(Some((sid, (mut reader, mut writer)))) => {
                            let key: u64 = sid.into();
                            sh.lock().unwrap().jobs[idx].sid = Some(key);
                            let mut buf = vec![0u8; job.size];
                            for (k, b) in buf.iter_mut().enumerate() {
                                *b = prf(seed, key, k as u64);
                            }
                            if let Err(e) = writer.write_all(&buf).await {
                                sh.lock().unwrap().jobs[idx].write_err = Some(format!("{e}"));
                            } else {
                                sh.lock().unwrap().jobs[idx].wrote = job.size;
                            }
                            let shp = sh.clone();
                            let r = read_prf(seed, key, &mut reader, |n| shp.lock().unwrap().jobs[idx].read = n).await;
                            let mut g = sh.lock().unwrap();
                            let j = &mut g.jobs[idx];
                            j.read = r.0;
                            j.eof = r.1;
                            j.bad_at = r.2;
                            j.read_err = r.3;
                            j.done_ms = Some(net.now().as_millis() as u64);
                            drop(g);
                            drop(writer);
                        }
                        Ok(None) => sh.lock().unwrap().jobs[idx].open_err = Some("stream ids exhausted".into()),
                        Err(e) => sh.lock().unwrap().jobs[idx].open_err = Some(errkind(&e)),
                    }
                })),
                JobKind::UniS2C => {}
            }
        }
        // datagrams from the client
        if let Ok(Ok(mut rd)) = conn.datagram_reader() {
            let sh = sh.clone();
            tokio::spawn(async move {
                while let Ok(d) = rd.recv().await {
                    sh.lock().unwrap().dgram_rcvd_client.push(dgram_check(seed, &d));
                }
            });
        }
        let cli_dgrams: Vec<(u64, usize)> = spec.datagrams.iter().enumerate().filter(|(_, d)| d.0).map(|(i, d)| (i as u64, d.1)).collect();
        if !cli_dgrams.is_empty() {
            let c = conn.clone();
            let sh = sh.clone();
            tasks.push(tokio::spawn(async move {
                match c.datagram_writer().await {
                    Ok(Ok(wr)) => {
                        for (id, size) in cli_dgrams {
                            match wr.send(&dgram_payload(seed, id, size)) {
                                Ok(()) => sh.lock().unwrap().dgram_accepted.push((true, id, size)),
                                Err(e) => sh.lock().unwrap().dgram_send_err.push(format!("client {id}: {e}")),
                            }
                            tokio::time::sleep(Duration::from_millis(5)).await;
                        }
                    }
                    Ok(Err(e)) => sh.lock().unwrap().dgram_send_err.push(format!("client writer: {e}")),
                    Err(e) => sh.lock().unwrap().dgram_send_err.push(format!("client writer: {}", errkind(&e))),
                }
            }));
        }
        for t in tasks {
            let _ = t.await;
        }
        sh.lock().unwrap().all_done_ms = Some(net.now().as_millis() as u64);
        if !spec.clean_close {
            // failure scenarios: the run lasts until both applications have been told (or the deadline)
            loop {
                {
                    let g = sh.lock().unwrap();
                    if (g.accepted_conns == 0 || g.server_term.is_some()) && g.client_term.is_some() {
                        break;
                    }
                }
                tokio::time::sleep(Duration::from_millis(50)).await;
            }
        }
        if spec.clean_close {
            // the server-side writers of the server-to-client jobs have no client task of their own: their
            // shutdown() (which waits for the acknowledgement of the FIN) must be given the chance to finish
            // before the client application closes the connection (bounded by the scenario deadline)
            loop {
                {
                    let g = sh.lock().unwrap();
                    // ... and the client's handshaked() (it waits for HANDSHAKE_DONE, which may need a retransmission
                    // although the short jobs are already finished)
                    let hs_settled = g.handshake_ms.is_some() || g.handshake_err.is_some();
                    if hs_settled && g.jobs.iter().all(|j| j.kind != "UniS2C" || j.write_done || j.write_err.is_some() || j.open_err.is_some()) {
                        break;
                    }
                }
                tokio::time::sleep(Duration::from_millis(50)).await;
            }
            // give datagrams / acks a moment, then close
            tokio::time::sleep(Duration::from_millis(200)).await;
            let _ = conn.close("done", 0);
            tokio::time::sleep(Duration::from_millis(500)).await;
        }
        w.listeners.shutdown();
        drop(conn);
        drop(w);
    });
    let (net, events) = holder.lock().unwrap().take().map(|(n, e)| (n, e)).unwrap_or_else(|| (SimNet::new(0), Arc::new(Default::default())));
    let end_ms = net.with(|n| n.sent.last().map(|e| e.t.as_millis() as u64).unwrap_or(0));
    let shared = std::mem::take(&mut *sh.lock().unwrap());
    let evs = std::mem::take(&mut *events.events.lock().unwrap());
    Outcome {
        spec: spec.clone(),
        shared,
        finished: res.is_some(),
        end_ms,
        panics: vcore::panics::since(pan0),
        events: evs,
        net,
    }
}

/// parameter table for generated scenarios
pub fn gen_params(rng: &mut Rng) -> ParamCfg {
    let mut p = ParamCfg::default();
    match rng.below(6) {
        0 => {
            // small windows: flow-control blocked most of the time
            p.max_data = 8 * 1024;
            p.stream_data = 4 * 1024;
        }
        1 => {
            p.max_data = 64 * 1024;
            p.stream_data = 16 * 1024;
        }
        2 => {
            p.streams_bidi = 3;
            p.streams_uni = 3;
        }
        3 => {
            p.max_data = 4 << 20;
            p.stream_data = 2 << 20;
        }
        _ => {}
    }
    p.max_ack_delay_ms = *rng.pick(&[1, 25, 25, 100]);
    p.mtu = *rng.pick(&[1200, 1350, 1500, 1500]);
    p
}

pub fn gen_jobs(rng: &mut Rng, p: &ParamCfg, max_total: usize) -> Vec<Job> {
    let sizes = [0usize, 1, 1199, 1200, 1201, 4096, 65_536, 300_000, 1 << 20];
    let nb = rng.range(1, 6.min(p.streams_bidi as u64)) as usize;
    let nu = rng.below(4.min(p.streams_uni as u64 + 1)) as usize;
    let ns = rng.below(3.min(p.streams_uni as u64 + 1)) as usize;
    let mut jobs = vec![];
    let mut total = 0usize;
    let mut push = |kind: JobKind, rng: &mut Rng| {
        let mut size = *rng.pick(&sizes);
        if rng.chance(1, 3) {
            size = rng.below(20_000) as usize;
        }
        if total + size > max_total {
            size = rng.below(5000) as usize;
        }
        total += size;
        let chunk = *rng.pick(&[1usize, 7, 100, 1200, 4096, 65_536]);
        // tiny chunks only for small streams (each write is an await)
        let chunk = if size > 20_000 && chunk < 100 { 4096 } else { chunk };
        jobs.push(Job { kind, size, chunk });
    };
    for _ in 0..nb {
        push(JobKind::BidiEcho, rng);
    }
    for _ in 0..nu {
        push(JobKind::UniC2S, rng);
    }
    for _ in 0..ns {
        push(JobKind::UniS2C, rng);
    }
    jobs
}

/// bounded-fault profile: random faults end at `faults_until`
pub fn gen_bounded_faults(rng: &mut Rng, faults_until: Duration) -> FaultProfile {
    let mut f = FaultProfile::default();
    f.latency = Duration::from_millis(*rng.pick(&[1, 5, 10, 25, 50, 100]));
    f.faults_until = Some(faults_until);
    match rng.below(8) {
        0 => {}
        1 => f.loss = rng.range(5, 50) as u32,
        2 => f.loss = rng.range(50, 300) as u32,
        3 => {
            f.jitter = Duration::from_millis(rng.range(1, 50));
            f.dup = rng.range(0, 100) as u32;
        }
        4 => {
            f.truncate = rng.range(5, 80) as u32;
            f.flip = rng.range(5, 80) as u32;
        }
        5 => {
            let n = rng.range(1, 3);
            let mut t = rng.range(0, 2000);
            for _ in 0..n {
                let len = rng.range(100, 2000);
                if Duration::from_millis(t + len) < faults_until {
                    f.blackouts.push((Duration::from_millis(t), Duration::from_millis(t + len)));
                }
                t += len + rng.range(200, 3000);
            }
        }
        _ => {
            f.loss = rng.range(0, 200) as u32;
            f.dup = rng.range(0, 100) as u32;
            f.jitter = Duration::from_millis(rng.range(0, 50));
            f.truncate = rng.range(0, 30) as u32;
            f.flip = rng.range(0, 30) as u32;
        }
    }
    f
}
