//! SimNet: an in-memory datagram network implementing `qinterface::io::IO` / `ProductIO`, with a
//! seeded, logged and replayable fault pipeline, running under tokio virtual time.
//!
//! Every datagram handed to `poll_send` gets an ordinal per direction; the fault pipeline decides
//! its fate (deliver after a delay / drop / duplicate / truncate / flip bits / black-out), logs the
//! decision and schedules the delivery with a timer.  Monitors read the wire log.
use std::{
    collections::{HashMap, VecDeque},
    io,
    net::SocketAddr,
    sync::{Arc, Mutex},
    task::{Context, Poll, Waker},
    time::Duration,
};

use bytes::BytesMut;
use qbase::net::route::{Line, Link, Pathway, Route};
use qinterface::{
    bind_uri::BindUri,
    io::{IO, ProductIO},
};
use serde_json::{Value, json};
use tokio::time::Instant;
use vcore::Rng;

#[derive(Clone, Debug)]
pub struct FaultProfile {
    /// one-way base latency
    pub latency: Duration,
    /// extra uniformly random delay in [0, jitter] (reordering)
    pub jitter: Duration,
    /// per-mille probabilities
    pub loss: u32,
    pub dup: u32,
    pub truncate: u32,
    pub flip: u32,
    /// black-out windows relative to network start (everything sent inside is dropped)
    pub blackouts: Vec<(Duration, Duration)>,
    /// drop everything once `mute_after` datagrams of this direction were sent
    pub mute_after: Option<u64>,
    /// drop everything sent after this time
    pub dead_from: Option<Duration>,
    /// random faults (loss/dup/truncate/flip/jitter) stop at this time
    pub faults_until: Option<Duration>,
    /// from this time on every datagram has 1-8 random bits flipped
    pub corrupt_from: Option<Duration>,
    /// every k-th datagram (while faults are on) gets bit `0x08 << (ord % 2)` of its first byte flipped
    pub flip_first_byte_every: Option<u64>,
    /// explicit ordinals to drop
    pub drop_ordinals: Vec<u64>,
    /// drop the first `n` datagrams of this direction that contain a packet of this kind
    /// ('i' Initial, 'h' Handshake, '0' 0-RTT, 's' short header; see `walk_kinds`)
    pub drop_first_of_kind: Option<(char, u32)>,
}

impl Default for FaultProfile {
    fn default() -> Self {
        FaultProfile {
            latency: Duration::from_millis(10),
            jitter: Duration::ZERO,
            loss: 0,
            dup: 0,
            truncate: 0,
            flip: 0,
            blackouts: vec![],
            mute_after: None,
            dead_from: None,
            faults_until: None,
            corrupt_from: None,
            flip_first_byte_every: None,
            drop_ordinals: vec![],
            drop_first_of_kind: None,
        }
    }
}

impl FaultProfile {
    pub fn from_json(v: &Value) -> Self {
        let ms = |k: &str| v.get(k).and_then(|x| x.as_u64()).map(Duration::from_millis);
        let pm = |k: &str| v.get(k).and_then(|x| x.as_u64()).unwrap_or(0) as u32;
        FaultProfile {
            latency: ms("latency_ms").unwrap_or(Duration::from_millis(10)),
            jitter: ms("jitter_ms").unwrap_or(Duration::ZERO),
            loss: pm("loss_pm"),
            dup: pm("dup_pm"),
            truncate: pm("truncate_pm"),
            flip: pm("flip_pm"),
            blackouts: v
                .get("blackouts_ms")
                .and_then(|x| x.as_array())
                .map(|a| {
                    a.iter()
                        .map(|p| (Duration::from_millis(p[0].as_u64().unwrap_or(0)), Duration::from_millis(p[1].as_u64().unwrap_or(0))))
                        .collect()
                })
                .unwrap_or_default(),
            mute_after: v.get("mute_after").and_then(|x| x.as_u64()),
            dead_from: ms("dead_from_ms"),
            faults_until: ms("faults_until_ms"),
            corrupt_from: ms("corrupt_from_ms"),
            flip_first_byte_every: v.get("flip_first_byte_every").and_then(|x| x.as_u64()),
            drop_ordinals: v
                .get("drop_ordinals")
                .and_then(|x| x.as_array())
                .map(|a| a.iter().filter_map(|x| x.as_u64()).collect())
                .unwrap_or_default(),
            drop_first_of_kind: v.get("drop_first_of_kind").and_then(|x| x.as_array()).and_then(|a| Some((a.first()?.as_str()?.chars().next()?, a.get(1)?.as_u64()? as u32))),
        }
    }

    pub fn to_json(&self) -> Value {
        json!({
            "latency_ms": self.latency.as_millis() as u64, "jitter_ms": self.jitter.as_millis() as u64,
            "loss_pm": self.loss, "dup_pm": self.dup, "truncate_pm": self.truncate, "flip_pm": self.flip,
            "blackouts_ms": self.blackouts.iter().map(|(a,b)| json!([a.as_millis() as u64, b.as_millis() as u64])).collect::<Vec<_>>(),
            "mute_after": self.mute_after, "dead_from_ms": self.dead_from.map(|d| d.as_millis() as u64),
            "faults_until_ms": self.faults_until.map(|d| d.as_millis() as u64),
            "corrupt_from_ms": self.corrupt_from.map(|d| d.as_millis() as u64),
            "flip_first_byte_every": self.flip_first_byte_every,
            "drop_ordinals": self.drop_ordinals,
            "drop_first_of_kind": self.drop_first_of_kind.map(|(k, n)| json!([k.to_string(), n])),
        })
    }
}

#[derive(Clone, Debug)]
pub struct Rebind {
    pub old: SocketAddr,
    pub new: SocketAddr,
    pub after: u64,
    pub forward: u32,
    pub forwarded: u32,
}

#[derive(Clone, Debug, PartialEq)]
pub enum Fate {
    Deliver,
    Drop(&'static str),
    Truncate(usize),
    Flip(Vec<usize>),
}

#[derive(Clone, Debug)]
pub struct WireEvent {
    pub t: Duration,
    pub src: SocketAddr,
    pub dst: SocketAddr,
    pub len: usize,
    pub ordinal: u64,
    pub fate: Fate,
    pub copies: u32,
    pub delay: Duration,
    /// long-header packet types found by walking the coalesced packets (i=Initial, 0=0-RTT,
    /// h=Handshake, r=Retry, v=version negotiation), 's' for a trailing short-header packet
    pub kinds: String,
    pub token_len: usize,
}

#[derive(Clone, Debug)]
pub struct DeliveryEvent {
    pub t: Duration,
    pub src: SocketAddr,
    pub dst: SocketAddr,
    pub len: usize,
    pub kinds: String,
    pub token_len: usize,
}

struct Endpoint {
    queue: VecDeque<(Vec<u8>, SocketAddr)>,
    waker: Option<Waker>,
    closed: bool,
}

pub struct NetInner {
    start: Instant,
    endpoints: HashMap<SocketAddr, Endpoint>,
    /// fault profile per destination address (direction = towards that endpoint)
    profiles: HashMap<SocketAddr, FaultProfile>,
    rng: Rng,
    ordinals: HashMap<(SocketAddr, SocketAddr), u64>,
    kind_drops: HashMap<(SocketAddr, SocketAddr), u32>,
    /// destination connection id of the first long-header packet seen (the connection's original DCID)
    first_dcid: Option<Vec<u8>>,
    /// NAT rebinding: once `old` has sent `after` datagrams, its next `forward` datagrams arrive from `new`;
    /// everything else it sends, and everything sent to `new`, is dropped
    pub rebind: Option<Rebind>,
    pub sent: Vec<WireEvent>,
    pub delivered: Vec<DeliveryEvent>,
    pub keep_log: bool,
    pub bytes_sent: HashMap<(SocketAddr, SocketAddr), u64>,
    pub bytes_delivered: HashMap<(SocketAddr, SocketAddr), u64>,
    pub n_sent: u64,
    pub n_delivered: u64,
    pub n_dropped: u64,
    pub n_dup: u64,
    pub n_trunc: u64,
    pub n_flip: u64,
    pub n_reordered: u64,
    last_delivery_ordinal: HashMap<(SocketAddr, SocketAddr), u64>,
    /// replay: forced fates by (src,dst,ordinal)
    pub forced: Option<HashMap<(SocketAddr, SocketAddr, u64), (Fate, u32, Duration)>>,
    /// optional online observer called for every send and delivery (C15's running inequality)
    pub on_send: Option<Box<dyn FnMut(&WireEvent) + Send>>,
    pub on_deliver: Option<Box<dyn FnMut(&DeliveryEvent) + Send>>,
    pub mtu: usize,
}

#[derive(Clone)]
pub struct SimNet(pub Arc<Mutex<NetInner>>);

/// Walk the coalesced QUIC packets of a datagram using only unprotected header fields.
pub fn walk_kinds(d: &[u8]) -> (String, usize) {
    let mut kinds = String::new();
    let mut token_len = 0usize;
    let mut p = 0usize;
    fn varint(d: &[u8], p: &mut usize) -> Option<u64> {
        let b = *d.get(*p)?;
        let n = 1usize << (b >> 6);
        if *p + n > d.len() {
            return None;
        }
        let mut v = (b & 0x3f) as u64;
        for i in 1..n {
            v = (v << 8) | d[*p + i] as u64;
        }
        *p += n;
        Some(v)
    }
    while p < d.len() {
        let b = d[p];
        if b & 0x80 == 0 {
            if b & 0x40 != 0 {
                kinds.push('s');
            } else {
                kinds.push('?');
            }
            break;
        }
        if p + 6 > d.len() {
            kinds.push('?');
            break;
        }
        let version = u32::from_be_bytes([d[p + 1], d[p + 2], d[p + 3], d[p + 4]]);
        let mut q = p + 5;
        let dl = d[q] as usize;
        q += 1 + dl;
        if q >= d.len() {
            kinds.push('?');
            break;
        }
        let sl = d[q] as usize;
        q += 1 + sl;
        if q > d.len() {
            kinds.push('?');
            break;
        }
        if version == 0 {
            kinds.push('v');
            break;
        }
        let ty = (b >> 4) & 3;
        match ty {
            0 => {
                let Some(tl) = varint(d, &mut q) else {
                    kinds.push('?');
                    break;
                };
                token_len = token_len.max(tl as usize);
                q += tl as usize;
                kinds.push('i');
            }
            1 => kinds.push('0'),
            2 => kinds.push('h'),
            _ => {
                kinds.push('r');
                break;
            }
        }
        let Some(len) = varint(d, &mut q) else {
            kinds.push('?');
            break;
        };
        p = q + len as usize;
    }
    (kinds, token_len)
}

impl SimNet {
    pub fn new(seed: u64) -> Self {
        SimNet(Arc::new(Mutex::new(NetInner {
            start: Instant::now(),
            endpoints: HashMap::new(),
            profiles: HashMap::new(),
            rng: Rng::new(seed),
            ordinals: HashMap::new(),
            kind_drops: HashMap::new(),
            first_dcid: None,
            rebind: None,
            sent: vec![],
            delivered: vec![],
            keep_log: true,
            bytes_sent: HashMap::new(),
            bytes_delivered: HashMap::new(),
            n_sent: 0,
            n_delivered: 0,
            n_dropped: 0,
            n_dup: 0,
            n_trunc: 0,
            n_flip: 0,
            n_reordered: 0,
            last_delivery_ordinal: HashMap::new(),
            forced: None,
            on_send: None,
            on_deliver: None,
            mtu: 1500,
        })))
    }

    pub fn set_profile_towards(&self, dst: SocketAddr, p: FaultProfile) {
        self.0.lock().unwrap().profiles.insert(dst, p);
    }

    pub fn profile_towards(&self, dst: SocketAddr) -> FaultProfile {
        self.0.lock().unwrap().profiles.get(&dst).cloned().unwrap_or_default()
    }

    pub fn now(&self) -> Duration {
        let g = self.0.lock().unwrap();
        Instant::now() - g.start
    }

    pub fn with<R>(&self, f: impl FnOnce(&mut NetInner) -> R) -> R {
        f(&mut self.0.lock().unwrap())
    }

    /// JSON of the fate decisions (for replay files)
    pub fn decision_log(&self) -> Value {
        let g = self.0.lock().unwrap();
        Value::from(
            g.sent
                .iter()
                .filter(|e| e.fate != Fate::Deliver || e.copies != 1)
                .take(4000)
                .map(|e| {
                    json!({"src": e.src.to_string(), "dst": e.dst.to_string(), "ord": e.ordinal,
                       "fate": format!("{:?}", e.fate), "copies": e.copies, "t_ms": e.t.as_millis() as u64})
                })
                .collect::<Vec<_>>(),
        )
    }

    fn deliver(&self, src: SocketAddr, dst: SocketAddr, ordinal: u64, data: Vec<u8>) {
        let mut g = self.0.lock().unwrap();
        let t = Instant::now() - g.start;
        let key = (src, dst);
        let last = g.last_delivery_ordinal.get(&key).copied();
        if last.is_some_and(|l| ordinal < l) {
            g.n_reordered += 1;
        }
        g.last_delivery_ordinal.insert(key, last.map_or(ordinal, |l| l.max(ordinal)));
        let Some(ep) = g.endpoints.get_mut(&dst) else {
            g.n_dropped += 1;
            return;
        };
        if ep.closed {
            g.n_dropped += 1;
            return;
        }
        let len = data.len();
        let (kinds, token_len) = walk_kinds(&data);
        ep.queue.push_back((data, src));
        let w = ep.waker.take();
        g.n_delivered += 1;
        *g.bytes_delivered.entry(key).or_insert(0) += len as u64;
        let ev = DeliveryEvent { t, src, dst, len, kinds, token_len };
        if let Some(cb) = g.on_deliver.as_mut() {
            cb(&ev);
        }
        if g.keep_log {
            g.delivered.push(ev);
        }
        drop(g);
        if let Some(w) = w {
            w.wake();
        }
    }

    pub fn first_dcid(&self) -> Option<Vec<u8>> {
        self.0.lock().unwrap().first_dcid.clone()
    }

    fn send(&self, src: SocketAddr, dst: SocketAddr, data: &[u8]) {
        let mut g = self.0.lock().unwrap();
        if g.first_dcid.is_none() && data.len() > 6 && data[0] & 0x80 != 0 && data.len() >= 6 + data[5] as usize {
            g.first_dcid = Some(data[6..6 + data[5] as usize].to_vec());
        }
        let now = Instant::now();
        let t = now - g.start;
        let ord = {
            let o = g.ordinals.entry((src, dst)).or_insert(0);
            let v = *o;
            *o += 1;
            v
        };
        let p = g.profiles.get(&dst).cloned().unwrap_or_default();
        let faults_on = p.faults_until.is_none_or(|u| t < u);
        let mut fate = Fate::Deliver;
        let mut copies = 1u32;
        let mut delay = p.latency;
        if let Some(f) = g.forced.as_ref() {
            if let Some((ff, c, d)) = f.get(&(src, dst, ord)) {
                fate = ff.clone();
                copies = *c;
                delay = *d;
            }
        } else {
            if p.dead_from.is_some_and(|d| t >= d) {
                fate = Fate::Drop("dead");
            } else if p.mute_after.is_some_and(|n| ord >= n) {
                fate = Fate::Drop("mute");
            } else if p.blackouts.iter().any(|(a, b)| t >= *a && t < *b) {
                fate = Fate::Drop("blackout");
            } else if p.drop_ordinals.contains(&ord) {
                fate = Fate::Drop("ordinal");
            } else if p.drop_first_of_kind.is_some_and(|(k, n)| walk_kinds(data).0.contains(k) && *g.kind_drops.get(&(src, dst)).unwrap_or(&0) < n) {
                *g.kind_drops.entry((src, dst)).or_insert(0) += 1;
                fate = Fate::Drop("kind");
            } else if p.corrupt_from.is_some_and(|d| t >= d) && !data.is_empty() {
                let r_aux = g.rng.next_u64();
                let n = 1 + (r_aux % 8) as usize;
                let mut x = r_aux;
                let bits = (0..n)
                    .map(|_| {
                        x = x.wrapping_mul(6364136223846793005).wrapping_add(1442695040888963407);
                        ((x >> 16) % (data.len() as u64 * 8)) as usize
                    })
                    .collect();
                fate = Fate::Flip(bits);
            } else if faults_on && p.flip_first_byte_every.is_some_and(|k| k > 0 && ord % k == k - 1) && !data.is_empty() {
                // bits 3/4 of the first byte: reserved bits of a short header, reserved / pn-length bits of a long header
                fate = Fate::Flip(vec![3 + (ord / p.flip_first_byte_every.unwrap() % 2) as usize]);
            } else if faults_on {
                // draw all decisions in a fixed order so the stream of random numbers is stable
                let r_loss = g.rng.below(1000) as u32;
                let r_dup = g.rng.below(1000) as u32;
                let r_trunc = g.rng.below(1000) as u32;
                let r_flip = g.rng.below(1000) as u32;
                let r_jit = g.rng.next_u64();
                let r_aux = g.rng.next_u64();
                if r_loss < p.loss {
                    fate = Fate::Drop("loss");
                } else if r_trunc < p.truncate && data.len() > 1 {
                    fate = Fate::Truncate((r_aux % data.len() as u64) as usize);
                } else if r_flip < p.flip && !data.is_empty() {
                    let n = 1 + (r_aux % 8) as usize;
                    let mut x = r_aux;
                    let bits = (0..n)
                        .map(|_| {
                            x = x.wrapping_mul(6364136223846793005).wrapping_add(1442695040888963407);
                            ((x >> 16) % (data.len() as u64 * 8)) as usize
                        })
                        .collect();
                    fate = Fate::Flip(bits);
                }
                if r_dup < p.dup {
                    copies = 2 + (r_aux >> 60 & 1) as u32;
                }
                if !p.jitter.is_zero() {
                    delay += Duration::from_micros(r_jit % (p.jitter.as_micros() as u64 + 1));
                }
            }
        }
        let mut src = src;
        if let Some(rb) = g.rebind.as_mut() {
            if dst == rb.new {
                fate = Fate::Drop("rebind-return");
            } else if src == rb.old && ord >= rb.after {
                if rb.forwarded < rb.forward && fate == Fate::Deliver {
                    rb.forwarded += 1;
                    src = rb.new;
                } else {
                    fate = Fate::Drop("rebind");
                }
            }
        }
        g.n_sent += 1;
        *g.bytes_sent.entry((src, dst)).or_insert(0) += data.len() as u64;
        let (kinds, token_len) = walk_kinds(data);
        let ev = WireEvent { t, src, dst, len: data.len(), ordinal: ord, fate: fate.clone(), copies, delay, kinds, token_len };
        if let Some(cb) = g.on_send.as_mut() {
            cb(&ev);
        }
        if g.keep_log {
            g.sent.push(ev);
        }
        let payload: Option<Vec<u8>> = match &fate {
            Fate::Deliver => Some(data.to_vec()),
            Fate::Drop(_) => {
                g.n_dropped += 1;
                None
            }
            Fate::Truncate(n) => {
                g.n_trunc += 1;
                Some(data[..*n].to_vec())
            }
            Fate::Flip(bits) => {
                g.n_flip += 1;
                let mut v = data.to_vec();
                for b in bits {
                    v[b / 8] ^= 1 << (b % 8);
                }
                Some(v)
            }
        };
        if copies > 1 && payload.is_some() {
            g.n_dup += (copies - 1) as u64;
        }
        drop(g);
        if let Some(payload) = payload {
            for c in 0..copies {
                let net = self.clone();
                let data = payload.clone();
                let d = delay + Duration::from_micros(c as u64 * 137);
                tokio::spawn(async move {
                    tokio::time::sleep(d).await;
                    net.deliver(src, dst, ord, data);
                });
            }
        }
    }

    /// Inject a raw datagram as if `src` had sent it (bypasses faults; used by hostile-client scenarios)
    pub fn inject(&self, src: SocketAddr, dst: SocketAddr, data: Vec<u8>, delay: Duration) {
        {
            let mut g = self.0.lock().unwrap();
            *g.bytes_sent.entry((src, dst)).or_insert(0) += data.len() as u64;
        }
        let net = self.clone();
        tokio::spawn(async move {
            tokio::time::sleep(delay).await;
            net.deliver(src, dst, u64::MAX, data);
        });
    }

    pub fn stats_json(&self) -> Value {
        let g = self.0.lock().unwrap();
        json!({"sent": g.n_sent, "delivered": g.n_delivered, "dropped": g.n_dropped, "dup": g.n_dup,
               "truncated": g.n_trunc, "flipped": g.n_flip, "reordered": g.n_reordered})
    }
}

pub struct SimIo {
    net: SimNet,
    bind_uri: BindUri,
    addr: SocketAddr,
}

impl SimIo {
    pub fn new(net: SimNet, bind_uri: BindUri) -> Self {
        let addr = SocketAddr::try_from(&bind_uri).expect("sim bind uri must be inet://ip:port");
        let mtu;
        {
            let mut g = net.0.lock().unwrap();
            g.endpoints.insert(addr, Endpoint { queue: VecDeque::new(), waker: None, closed: false });
            mtu = g.mtu;
        }
        let _ = mtu;
        SimIo { net, bind_uri, addr }
    }
}

impl IO for SimIo {
    fn bind_uri(&self) -> BindUri {
        self.bind_uri.clone()
    }

    fn bound_addr(&self) -> io::Result<SocketAddr> {
        Ok(self.addr)
    }

    fn max_segment_size(&self) -> io::Result<usize> {
        Ok(self.net.0.lock().unwrap().mtu)
    }

    fn max_segments(&self) -> io::Result<usize> {
        Ok(8)
    }

    fn poll_send(&self, _cx: &mut Context, pkts: &[io::IoSlice], route: Route) -> Poll<io::Result<usize>> {
        let dst = route.line.link.dst;
        for p in pkts {
            self.net.send(self.addr, dst, p);
        }
        Poll::Ready(Ok(pkts.len()))
    }

    fn poll_recv(&self, cx: &mut Context, pkts: &mut [BytesMut], route: &mut [Route]) -> Poll<io::Result<usize>> {
        let mut g = self.net.0.lock().unwrap();
        let me = self.addr;
        let Some(ep) = g.endpoints.get_mut(&me) else {
            return Poll::Ready(Err(io::Error::other("sim endpoint gone")));
        };
        if ep.closed {
            return Poll::Ready(Err(io::Error::other("sim endpoint closed")));
        }
        let mut n = 0;
        let max = pkts.len().min(route.len());
        while n < max {
            let Some((data, from)) = ep.queue.pop_front() else { break };
            let len = data.len().min(pkts[n].len());
            pkts[n][..len].copy_from_slice(&data[..len]);
            let pathway = Pathway::new(from.into(), me.into());
            let line = Line::new(Link::new(from, me).flip(), 64, None, len as u16);
            route[n] = Route::new(pathway.flip(), line);
            n += 1;
        }
        if n == 0 {
            ep.waker = Some(cx.waker().clone());
            return Poll::Pending;
        }
        Poll::Ready(Ok(n))
    }

    fn poll_close(&mut self, _cx: &mut Context) -> Poll<io::Result<()>> {
        let mut g = self.net.0.lock().unwrap();
        if let Some(ep) = g.endpoints.get_mut(&self.addr) {
            ep.closed = true;
            if let Some(w) = ep.waker.take() {
                w.wake();
            }
        }
        Poll::Ready(Ok(()))
    }
}

impl Drop for SimIo {
    fn drop(&mut self) {
        if let Ok(mut g) = self.net.0.lock() {
            g.endpoints.remove(&self.addr);
        }
    }
}

pub struct SimFactory(pub SimNet);

impl ProductIO for SimFactory {
    fn bind(&self, bind_uri: BindUri) -> Box<dyn IO> {
        Box::new(SimIo::new(self.0.clone(), bind_uri))
    }
}
