//! C04 (whole-stack leg) — hostile but well-formed frames, injected through hook H3 into the 1-RTT
//! packets of an honest server, are processed by the client's REAL receive path
//! (decrypt -> FrameReader -> dispatch in qconnection/src/space*.rs -> handlers -> close).
//! Oracle: the victim terminates with the error kind RFC 9000 prescribes, and the whole process
//! (both endpoints live in it) allocates and computes only a bounded amount while doing so.
use std::{sync::Arc, time::Duration};

use dquic::prelude::*;
use serde_json::{Value, json};
use tokio::io::{AsyncReadExt, AsyncWriteExt};
use vcore::{Args, Report};

use crate::{
    scenario::ParamCfg,
    sim::FaultProfile,
    world::{LogMode, World, WorldCfg, client_addr, run_paused, server_addr},
};

fn vi(v: u64) -> Vec<u8> {
    if v < 1 << 6 {
        vec![v as u8]
    } else if v < 1 << 14 {
        (v as u16 | 0x4000).to_be_bytes().to_vec()
    } else if v < 1 << 30 {
        (v as u32 | 0x8000_0000).to_be_bytes().to_vec()
    } else {
        (v | 0xc000_0000_0000_0000).to_be_bytes().to_vec()
    }
}

fn cat(parts: &[Vec<u8>]) -> Vec<u8> {
    parts.concat()
}

pub struct Probe {
    pub name: &'static str,
    pub frames: Vec<u8>,
    /// allowed terminating error kinds at the victim (Debug names of ErrorKind); the pseudo kind
    /// "accepted" means the frame is legal and only its cost is judged
    pub expect: &'static [&'static str],
    /// property whose clause prescribes the reaction ("C04" for every probe; C11 / C12 / C19 legs run their subset)
    pub prop: &'static str,
    /// endpoint whose packets carry the frames (the victim is the other one)
    pub from: Role,
    /// per-stream receive limit 300 000 instead of 65 536 (the connection limit stays 200 000)
    pub big_stream: bool,
}

impl Probe {
    fn big_stream(mut self) -> Self {
        self.big_stream = true;
        self
    }
}

fn pr(prop: &'static str, name: &'static str, frames: Vec<u8>, expect: &'static [&'static str]) -> Probe {
    Probe { name, frames, expect, prop, from: Role::Server, big_stream: false }
}

fn pr_c(prop: &'static str, name: &'static str, frames: Vec<u8>, expect: &'static [&'static str]) -> Probe {
    Probe { name, frames, expect, prop, from: Role::Client, big_stream: false }
}

/// STREAM frame with OFF and LEN bits (+FIN)
fn stream(id: u64, off: u64, data: &[u8], fin: bool) -> Vec<u8> {
    cat(&[vec![0x0e | fin as u8], vi(id), vi(off), vi(data.len() as u64), data.to_vec()])
}

/// the victim is the CLIENT; the server's packets carry the hostile frames.
/// client-initiated bidi stream ids are 0,4,8..; client uni 2,6,..; server bidi 1,5,..; server uni 3,7,..
pub fn probes() -> Vec<Probe> {
    vec![
        pr("C04", "ack.unsent.wide-range", cat(&[vec![0x02], vi(1 << 22), vi(0), vi(0), vi(1 << 22)]), &["ProtocolViolation"]),
        pr("C04", "ack.unsent.huge-range", cat(&[vec![0x02], vi(1 << 40), vi(0), vi(0), vi(1 << 40)]), &["ProtocolViolation"]),
        pr("C04", "ack.first-range-gt-largest", cat(&[vec![0x02], vi(5), vi(0), vi(0), vi(10)]), &["FrameEncoding"]),
        pr("C12", "max_streams.gt-2^60", cat(&[vec![0x12], vi(1 << 61)]), &["FrameEncoding", "StreamLimit"]),
        pr("C12", "streams_blocked.gt-2^60", cat(&[vec![0x16], vi(1 << 61)]), &["FrameEncoding", "StreamLimit"]),
        pr("C12", "stream.on-victims-uni-stream", cat(&[vec![0x0a], vi(2), vi(1), vec![0x41]]), &["StreamState"]),
        pr("C12", "stream.index-far-beyond-limit", cat(&[vec![0x0a], vi(1 + 4 * 5000), vi(1), vec![0x41]]), &["StreamLimit"]),
        pr("C11", "stream.offset-beyond-stream-limit", cat(&[vec![0x0e], vi(1), vi(1 << 30), vi(1), vec![0x41]]), &["FlowControl"]),
        pr("C12", "max_stream_data.on-receive-only-stream", cat(&[vec![0x11], vi(3), vi(1000)]), &["StreamState"]),
        pr("C12", "stop_sending.local-unopened", cat(&[vec![0x05], vi(4 * 40), vi(0)]), &["StreamState"]),
        pr("C04", "retire_connection_id.unissued-seq", cat(&[vec![0x19], vi(1000)]), &["ProtocolViolation"]),
        pr("C04", "new_connection_id.retire-prior-to-gt-seq", cat(&[vec![0x18], vi(3), vi(5), vec![8], vec![7; 8], vec![9; 16]]), &["FrameEncoding", "ProtocolViolation"]),
        pr("C04", "new_connection_id.far-beyond-limit", cat(&[vec![0x18], vi(100_000), vi(0), vec![8], vec![7; 8], vec![9; 16]]), &["ConnectionIdLimit"]),
        // ---- second table (round 2): limits of C11 / C12 / C19 on the real receive path ------------------
        // connection limit 200 000 but stream limit 300 000: one frame within its stream's limit exceeds the connection's
        // (the receiver raises its connection limit by a step whenever a frame comes close to it, so only a single
        // frame that jumps over the limit is certain to be beyond what was advertised)
        pr("C11", "stream.connection-limit-exceeded-within-stream-limit", stream(1, 299_999, b"A", false), &["FlowControl"]).big_stream(),
        pr("C11", "stream.exactly-at-stream-limit", stream(0, 65535, b"A", false), &["accepted"]),
        pr("C11", "stream.one-beyond-stream-limit", stream(1, 65535, b"AB", false), &["FlowControl"]),
        pr("C11", "reset.final-size-beyond-stream-limit", cat(&[vec![0x04], vi(1), vi(0), vi(1 << 30)]), &["FlowControl"]),
        pr("C11", "max_data.maximal-value", cat(&[vec![0x10], vi((1 << 62) - 1)]), &["accepted"]),
        pr("C11", "max_stream_data.maximal-value", cat(&[vec![0x11], vi(0), vi((1 << 62) - 1)]), &["accepted"]),
        pr("C12", "stream.data-beyond-final-size", cat(&[stream(1, 2, b"A", true), stream(1, 5, b"B", false)]), &["FinalSize"]),
        pr("C12", "stream.second-fin-at-other-offset", cat(&[stream(1, 2, b"AA", true), stream(1, 1, b"A", true)]), &["FinalSize"]),
        pr("C12", "reset.final-size-below-received", cat(&[stream(1, 0, b"AAAA", false), cat(&[vec![0x04], vi(1), vi(0), vi(2)])]), &["FinalSize"]),
        pr("C12", "reset.on-victims-uni-stream", cat(&[vec![0x04], vi(2), vi(0), vi(0)]), &["StreamState"]),
        pr("C12", "stop_sending.on-receive-only-stream", cat(&[vec![0x05], vi(3), vi(0)]), &["StreamState"]),
        pr("C12", "max_stream_data.local-unopened", cat(&[vec![0x11], vi(4 * 40), vi(1000)]), &["StreamState"]),
        pr("C12", "stream.local-unopened", stream(4 * 40, 0, b"A", false), &["StreamState"]),
        // the victim's second unidirectional stream (id 6) was never opened, although its index is below the
        // number of bidirectional streams the victim has opened
        pr("C12", "max_stream_data.local-uni-unopened-below-bidi-count", cat(&[vec![0x11], vi(6), vi(1000)]), &["StreamState"]),
        pr("C12", "stop_sending.local-uni-unopened-below-bidi-count", cat(&[vec![0x05], vi(6), vi(0)]), &["StreamState"]),
        // ... and its first one (id 2) exists: a larger limit for it is legal
        pr("C12", "max_stream_data.local-uni-opened", cat(&[vec![0x11], vi(2), vi(100_000)]), &["accepted"]),
        pr("C12", "stream.index-exactly-last-allowed", stream(1 + 4 * 9, 0, b"A", false), &["accepted"]),
        pr("C12", "stream.uni-index-first-beyond-limit-plus-one", stream(3 + 4 * 11, 0, b"A", false), &["StreamLimit"]),
        pr("C19", "datagram.received-when-disabled", cat(&[vec![0x31], vi(1), vec![0x41]]), &["ProtocolViolation"]),
        pr("C04", "new_connection_id.cid-length-zero", cat(&[vec![0x18], vi(1), vi(0), vec![0], vec![9; 16]]), &["FrameEncoding"]),
        pr("C04", "new_connection_id.cid-length-21", cat(&[vec![0x18], vi(1), vi(0), vec![21], vec![7; 21], vec![9; 16]]), &["FrameEncoding"]),
        pr("C04", "crypto.far-offset", cat(&[vec![0x06], vi(1 << 40), vi(1), vec![0x41]]), &["accepted", "CryptoBufferExceeded"]),
        pr("C04", "padding-and-pings", cat(&[vec![0x00; 500], vec![0x01; 500]]), &["accepted"]),
        // ---- frames a client must never send (victim = server; the client sees the server's CONNECTION_CLOSE) ---
        pr_c("C04", "handshake_done.sent-by-client", vec![0x1e], &["ProtocolViolation"]),
        pr_c("C04", "new_token.sent-by-client", cat(&[vec![0x07], vi(4), vec![1, 2, 3, 4]]), &["ProtocolViolation"]),
        pr_c("C12", "stream.on-servers-uni-stream", stream(3, 0, b"A", false), &["StreamState"]),
        pr_c("C12", "stream.client-bidi-index-far-beyond-limit", stream(4 * 5000, 0, b"A", false), &["StreamLimit"]),
        pr_c("C11", "stream.offset-beyond-stream-limit.at-server", stream(0, 1 << 30, b"A", false), &["FlowControl"]),
    ]
}

pub struct Obs {
    pub client_term: Option<String>,
    pub client_term_text: String,
    pub alloc_bytes: u64,
    pub peak_live_delta: u64,
    pub cpu_us: u64,
    pub injected_consumed: bool,
    pub completed: bool,
}

fn run_probe(seed: u64, from: Role, big_stream: bool, frames: Vec<u8>) -> Obs {
    let out: Arc<std::sync::Mutex<Obs>> = Arc::new(std::sync::Mutex::new(Obs { client_term: None, client_term_text: String::new(), alloc_bytes: 0, peak_live_delta: 0, cpu_us: 0, injected_consumed: false, completed: false }));
    let o2 = out.clone();
    qconnection::verif::clear_injections();
    let done = run_paused(Duration::from_secs(30), async move {
        let mut p = ParamCfg::default();
        p.streams_bidi = 10;
        p.streams_uni = 10;
        p.stream_data = if big_stream { 300_000 } else { 65536 };
        p.max_data = 200_000;
        let cfg = WorldCfg { client_params: p.client(), server_params: p.server(), log: LogMode::Noop, with_qlog: true, mtu: 1500 , ..Default::default() };
        let w = World::new(seed, cfg).await;
        let lat = Duration::from_millis(5);
        w.net.set_profile_towards(server_addr(), FaultProfile { latency: lat, ..Default::default() });
        w.net.set_profile_towards(client_addr(), FaultProfile { latency: lat, ..Default::default() });
        // server: accept, echo on bidi streams, keep one writer to wake its sender
        let listeners = w.listeners.clone();
        let (tx, mut rx) = tokio::sync::mpsc::unbounded_channel::<StreamWriter>();
        tokio::spawn(async move {
            while let Ok((conn, ..)) = listeners.accept().await {
                let tx = tx.clone();
                tokio::spawn(async move {
                    while let Ok((_sid, (mut r, mut wtr))) = conn.accept_bi_stream().await {
                        let mut buf = [0u8; 1024];
                        if let Ok(n) = r.read(&mut buf).await {
                            let _ = wtr.write_all(&buf[..n]).await;
                        }
                        let _ = tx.send(wtr);
                        std::mem::forget(r);
                    }
                });
            }
        });
        let conn = Arc::new(w.connect().await);
        // a short legitimate history: handshake, one echo on a bidi stream, one client uni stream
        let Ok(Some((_sid, (mut r, mut wtr)))) = conn.open_bi_stream().await else { return };
        let _ = wtr.write_all(&[0x55; 600]).await;
        let mut buf = [0u8; 1024];
        let _ = r.read(&mut buf).await;
        if let Ok(Some((_s, mut uw))) = conn.open_uni_stream().await {
            let _ = uw.write_all(b"uni").await;
            std::mem::forget(uw);
        }
        // two more bidirectional streams (ids 4, 8), opened but unused: the victim has now opened three
        // bidirectional and one unidirectional stream, so the two kinds' counts differ
        for _ in 0..2 {
            if let Ok(Some((_s, pair))) = conn.open_bi_stream().await {
                std::mem::forget(pair);
            }
        }
        tokio::time::sleep(Duration::from_millis(100)).await;
        let Some(mut swriter) = rx.recv().await else { return };
        // measure from here
        let a0 = vcore::alloc::snapshot();
        vcore::alloc::reset_peak();
        let c0 = vcore::alloc::cpu_time_us();
        qconnection::verif::inject_raw_frames(from, frames);
        if from == Role::Server {
            let _ = swriter.write_all(b"wake").await;
        } else {
            let _ = wtr.write_all(b"wake").await;
        }
        let c = conn.clone();
        let term = tokio::time::timeout(Duration::from_secs(3), async move { c.terminated().await }).await;
        let a1 = vcore::alloc::snapshot();
        let c1 = vcore::alloc::cpu_time_us();
        let mut g = o2.lock().unwrap();
        if let Ok(e) = term {
            g.client_term = Some(format!("{:?}", e.kind()));
            g.client_term_text = format!("{e}");
        }
        g.alloc_bytes = a1.total - a0.total;
        g.peak_live_delta = a1.peak.saturating_sub(a0.live);
        g.cpu_us = c1 - c0;
        g.injected_consumed = qconnection::verif::pending_injections(from) == 0;
        g.completed = true;
        drop(g);
        w.listeners.shutdown();
        std::mem::forget(r);
        std::mem::forget(wtr);
    });
    let _ = done;
    qconnection::verif::clear_injections();
    let g = out.lock().unwrap();
    Obs { client_term: g.client_term.clone(), client_term_text: g.client_term_text.clone(), alloc_bytes: g.alloc_bytes, peak_live_delta: g.peak_live_delta, cpu_us: g.cpu_us, injected_consumed: g.injected_consumed, completed: g.completed }
}

/// budgets for the whole process while one hostile frame is handled and the connection closes
/// (an honest close costs well under 1 MB and a few ms)
const ALLOC_BUDGET: u64 = 8 << 20;
const CPU_BUDGET_US: u64 = 1_500_000;

fn judge(rep: &mut Report, pfx: &str, name: &str, expect: &[&str], o: &Obs, replay: Value) {
    if !o.completed {
        rep.inconclusive(format!("probe {name}: scenario did not reach the measurement point"));
        return;
    }
    if !o.injected_consumed {
        rep.inconclusive(format!("probe {name}: the injected frames were never sent"));
        return;
    }
    rep.count("probes_delivered");
    rep.max("max_alloc_bytes_per_probe", o.alloc_bytes);
    rep.max("max_cpu_us_per_probe", o.cpu_us);
    match &o.client_term {
        None if expect.contains(&"accepted") => rep.count("legal_probes_accepted"),
        None => rep.violation(format!("{pfx}.l2.error:{name}:accepted"), format!("hostile frame {name} was not answered with a connection error within 3 virtual s (prescribed: {expect:?})"), replay.clone()),
        Some(k) if !expect.contains(&k.as_str()) => rep.violation(format!("{pfx}.l2.error:{name}:{k}"), format!("hostile frame {name} closed the connection with {k} ({}), prescribed: {expect:?}", o.client_term_text), replay.clone()),
        Some(_) => rep.count("probes_with_prescribed_error"),
    }
    if o.alloc_bytes > ALLOC_BUDGET {
        rep.violation(format!("{pfx}.l2.mem:{name}"), format!("handling {name} made the process allocate {} bytes (budget {ALLOC_BUDGET}); peak live growth {} bytes", o.alloc_bytes, o.peak_live_delta), replay.clone());
    }
    if o.cpu_us > CPU_BUDGET_US {
        // CPU time is noisy on a loaded machine: confirmed by the caller with re-runs
        rep.violation(format!("{pfx}.l2.cpu:{name}"), format!("handling {name} cost {} us of CPU (budget {CPU_BUDGET_US})", o.cpu_us), replay);
    }
}

pub fn run(args: &Args, rep: &mut Report) {
    rep.rule = "probe = one hostile frame injected into an honest server's 1-RTT packet after a short legitimate history; distinct = probe names delivered; \
                non-trivial = the victim processed the frame (connection error or acceptance observed)"
        .into();
    // `--prop C11` (C12, C19): only the probes whose prescribed reaction is a clause of that property,
    // reported under that property's name; without it (C04) the whole table
    let only = args.get("prop").map(|s| s.to_string());
    let mut pfx = only.clone().unwrap_or_else(|| "C04".to_string());
    let table: Vec<Probe> = probes().into_iter().filter(|p| only.as_deref().is_none_or(|o| o == p.prop)).collect();
    if let Some(path) = args.get("replay") {
        let v: Value = serde_json::from_str(&std::fs::read_to_string(path).unwrap()).unwrap();
        let v = if v.get("replay").is_some() { v["replay"].clone() } else { v };
        if let Some(p) = v.get("prop").and_then(|p| p.as_str()) {
            pfx = p.to_string();
        }
        let table = probes();
        let name = v["probe"].as_str().unwrap_or("");
        if let Some(p) = table.iter().find(|p| p.name == name) {
            let o = run_probe(v["seed"].as_u64().unwrap_or(1), p.from, p.big_stream, p.frames.clone());
            rep.evaluations += 1;
            judge(rep, &pfx, p.name, p.expect, &o, v.clone());
        }
        return;
    }
    let shard = args.u64("shard", 0);
    let shards = args.u64("shards", 1);
    for (i, p) in table.iter().enumerate() {
        if p.frames.is_empty() || i as u64 % shards != shard {
            continue;
        }
        let replay = json!({"kind": "c04-l2", "prop": pfx, "probe": p.name, "seed": args.seed(), "frames": vcore::hex(&p.frames)});
        let mut o = run_probe(args.seed(), p.from, p.big_stream, p.frames.clone());
        // a CPU overrun only counts if it repeats (process CPU time is noisy under load)
        if o.completed && o.cpu_us > CPU_BUDGET_US && o.alloc_bytes <= ALLOC_BUDGET {
            let o2 = run_probe(args.seed() + 1, p.from, p.big_stream, p.frames.clone());
            let o3 = run_probe(args.seed() + 2, p.from, p.big_stream, p.frames.clone());
            if o2.cpu_us <= CPU_BUDGET_US || o3.cpu_us <= CPU_BUDGET_US {
                rep.count("cpu_overruns_not_confirmed");
                o.cpu_us = o2.cpu_us.min(o3.cpu_us);
            }
        }
        rep.evaluations += 1;
        rep.distinct(vcore::fnv_str(p.name));
        rep.sample(json!({"leg": "l2", "probe": p.name, "frames": vcore::hex(&p.frames), "victim_error": o.client_term, "alloc_bytes": o.alloc_bytes, "cpu_us": o.cpu_us}));
        judge(rep, &pfx, p.name, p.expect, &o, replay);
    }
}
