//! C04 (whole-stack leg) — hostile but well-formed frames, injected through hook H3 into the 1-RTT
//! packets of an honest server, are processed by the client's REAL receive path
//! (decrypt -> FrameReader -> dispatch in qconnection/src/space*.rs -> handlers -> close).
//! Oracle: the victim terminates with the error kind RFC 9000 prescribes, and the whole process
//! (both endpoints live in it) allocates and computes only a bounded amount while doing so.
use std::{sync::Arc, time::Duration};

use dquic::prelude::*;
use serde_json::{Value, json};
use tokio::io::{AsyncReadExt, AsyncWriteExt};
use vcore::{Args, Report};

use crate::{
    scenario::ParamCfg,
    sim::FaultProfile,
    world::{LogMode, World, WorldCfg, client_addr, run_paused, server_addr},
};

fn vi(v: u64) -> Vec<u8> {
    if v < 1 << 6 {
        vec![v as u8]
    } else if v < 1 << 14 {
        (v as u16 | 0x4000).to_be_bytes().to_vec()
    } else if v < 1 << 30 {
        (v as u32 | 0x8000_0000).to_be_bytes().to_vec()
    } else {
        (v | 0xc000_0000_0000_0000).to_be_bytes().to_vec()
    }
}

fn cat(parts: &[Vec<u8>]) -> Vec<u8> {
    parts.concat()
}

pub struct Probe {
    pub name: &'static str,
    pub frames: Vec<u8>,
    /// allowed terminating error kinds at the victim (Debug names of ErrorKind)
    pub expect: &'static [&'static str],
}

/// the victim is the CLIENT; the server's packets carry the hostile frames.
/// client-initiated bidi stream ids are 0,4,8..; client uni 2,6,..; server bidi 1,5,..; server uni 3,7,..
pub fn probes() -> Vec<Probe> {
    vec![
        Probe { name: "ack.unsent.wide-range", frames: cat(&[vec![0x02], vi(1 << 22), vi(0), vi(0), vi(1 << 22)]), expect: &["ProtocolViolation"] },
        Probe { name: "ack.unsent.huge-range", frames: cat(&[vec![0x02], vi(1 << 40), vi(0), vi(0), vi(1 << 40)]), expect: &["ProtocolViolation"] },
        Probe { name: "ack.first-range-gt-largest", frames: cat(&[vec![0x02], vi(5), vi(0), vi(0), vi(10)]), expect: &["FrameEncoding"] },
        Probe { name: "max_streams.gt-2^60", frames: cat(&[vec![0x12], vi(1 << 61)]), expect: &["FrameEncoding", "StreamLimit"] },
        Probe { name: "streams_blocked.gt-2^60", frames: cat(&[vec![0x16], vi(1 << 61)]), expect: &["FrameEncoding", "StreamLimit"] },
        Probe { name: "stream.on-victims-uni-stream", frames: cat(&[vec![0x0a], vi(2), vi(1), vec![0x41]]), expect: &["StreamState"] },
        Probe { name: "stream.index-far-beyond-limit", frames: cat(&[vec![0x0a], vi(1 + 4 * 5000), vi(1), vec![0x41]]), expect: &["StreamLimit"] },
        Probe { name: "stream.offset-beyond-stream-limit", frames: cat(&[vec![0x0e], vi(1), vi(1 << 30), vi(1), vec![0x41]]), expect: &["FlowControl"] },
        Probe { name: "max_stream_data.on-receive-only-stream", frames: cat(&[vec![0x11], vi(3), vi(1000)]), expect: &["StreamState"] },
        Probe { name: "stop_sending.local-unopened", frames: cat(&[vec![0x05], vi(4 * 40), vi(0)]), expect: &["StreamState"] },
        Probe { name: "retire_connection_id.unissued-seq", frames: cat(&[vec![0x19], vi(1000)]), expect: &["ProtocolViolation"] },
        Probe { name: "new_connection_id.retire-prior-to-gt-seq", frames: cat(&[vec![0x18], vi(3), vi(5), vec![8], vec![7; 8], vec![9; 16]]), expect: &["FrameEncoding", "ProtocolViolation"] },
        Probe { name: "new_connection_id.far-beyond-limit", frames: cat(&[vec![0x18], vi(100_000), vi(0), vec![8], vec![7; 8], vec![9; 16]]), expect: &["ConnectionIdLimit"] },
        Probe { name: "handshake_done.from-client-role", frames: vec![], expect: &[] }, // placeholder, skipped
    ]
}

pub struct Obs {
    pub client_term: Option<String>,
    pub client_term_text: String,
    pub alloc_bytes: u64,
    pub peak_live_delta: u64,
    pub cpu_us: u64,
    pub injected_consumed: bool,
    pub completed: bool,
}

fn run_probe(seed: u64, frames: Vec<u8>) -> Obs {
    let out: Arc<std::sync::Mutex<Obs>> = Arc::new(std::sync::Mutex::new(Obs { client_term: None, client_term_text: String::new(), alloc_bytes: 0, peak_live_delta: 0, cpu_us: 0, injected_consumed: false, completed: false }));
    let o2 = out.clone();
    qconnection::verif::clear_injections();
    let done = run_paused(Duration::from_secs(30), async move {
        let mut p = ParamCfg::default();
        p.streams_bidi = 10;
        p.streams_uni = 10;
        p.stream_data = 65536;
        let cfg = WorldCfg { client_params: p.client(), server_params: p.server(), log: LogMode::Noop, with_qlog: true, mtu: 1500 , ..Default::default() };
        let w = World::new(seed, cfg).await;
        let lat = Duration::from_millis(5);
        w.net.set_profile_towards(server_addr(), FaultProfile { latency: lat, ..Default::default() });
        w.net.set_profile_towards(client_addr(), FaultProfile { latency: lat, ..Default::default() });
        // server: accept, echo on bidi streams, keep one writer to wake its sender
        let listeners = w.listeners.clone();
        let (tx, mut rx) = tokio::sync::mpsc::unbounded_channel::<StreamWriter>();
        tokio::spawn(async move {
            while let Ok((conn, ..)) = listeners.accept().await {
                let tx = tx.clone();
                tokio::spawn(async move {
                    while let Ok((_sid, (mut r, mut wtr))) = conn.accept_bi_stream().await {
                        let mut buf = [0u8; 1024];
                        if let Ok(n) = r.read(&mut buf).await {
                            let _ = wtr.write_all(&buf[..n]).await;
                        }
                        let _ = tx.send(wtr);
                        std::mem::forget(r);
                    }
                });
            }
        });
        let conn = Arc::new(w.connect().await);
        // a short legitimate history: handshake, one echo on a bidi stream, one client uni stream
        let Ok(Some((_sid, (mut r, mut wtr)))) = conn.open_bi_stream().await else { return };
        let _ = wtr.write_all(&[0x55; 600]).await;
        let mut buf = [0u8; 1024];
        let _ = r.read(&mut buf).await;
        if let Ok(Some((_s, mut uw))) = conn.open_uni_stream().await {
            let _ = uw.write_all(b"uni").await;
            std::mem::forget(uw);
        }
        tokio::time::sleep(Duration::from_millis(100)).await;
        let Some(mut swriter) = rx.recv().await else { return };
        // measure from here
        let a0 = vcore::alloc::snapshot();
        vcore::alloc::reset_peak();
        let c0 = vcore::alloc::cpu_time_us();
        qconnection::verif::inject_raw_frames(Role::Server, frames);
        let _ = swriter.write_all(b"wake").await;
        let c = conn.clone();
        let term = tokio::time::timeout(Duration::from_secs(3), async move { c.terminated().await }).await;
        let a1 = vcore::alloc::snapshot();
        let c1 = vcore::alloc::cpu_time_us();
        let mut g = o2.lock().unwrap();
        if let Ok(e) = term {
            g.client_term = Some(format!("{:?}", e.kind()));
            g.client_term_text = format!("{e}");
        }
        g.alloc_bytes = a1.total - a0.total;
        g.peak_live_delta = a1.peak.saturating_sub(a0.live);
        g.cpu_us = c1 - c0;
        g.injected_consumed = qconnection::verif::pending_injections(Role::Server) == 0;
        g.completed = true;
        drop(g);
        w.listeners.shutdown();
        std::mem::forget(r);
        std::mem::forget(wtr);
    });
    let _ = done;
    qconnection::verif::clear_injections();
    let g = out.lock().unwrap();
    Obs { client_term: g.client_term.clone(), client_term_text: g.client_term_text.clone(), alloc_bytes: g.alloc_bytes, peak_live_delta: g.peak_live_delta, cpu_us: g.cpu_us, injected_consumed: g.injected_consumed, completed: g.completed }
}

/// budgets for the whole process while one hostile frame is handled and the connection closes
/// (an honest close costs well under 1 MB and a few ms)
const ALLOC_BUDGET: u64 = 8 << 20;
const CPU_BUDGET_US: u64 = 1_500_000;

fn judge(rep: &mut Report, name: &str, expect: &[&str], o: &Obs, replay: Value) {
    if !o.completed {
        rep.inconclusive(format!("probe {name}: scenario did not reach the measurement point"));
        return;
    }
    if !o.injected_consumed {
        rep.inconclusive(format!("probe {name}: the injected frames were never sent"));
        return;
    }
    rep.count("probes_delivered");
    rep.max("max_alloc_bytes_per_probe", o.alloc_bytes);
    rep.max("max_cpu_us_per_probe", o.cpu_us);
    match &o.client_term {
        None => rep.violation(format!("C04.l2.error:{name}:accepted"), format!("hostile frame {name} was not answered with a connection error within 3 virtual s (prescribed: {expect:?})"), replay.clone()),
        Some(k) if !expect.contains(&k.as_str()) => rep.violation(format!("C04.l2.error:{name}:{k}"), format!("hostile frame {name} closed the connection with {k} ({}), prescribed: {expect:?}", o.client_term_text), replay.clone()),
        Some(_) => rep.count("probes_with_prescribed_error"),
    }
    if o.alloc_bytes > ALLOC_BUDGET {
        rep.violation(format!("C04.l2.mem:{name}"), format!("handling {name} made the process allocate {} bytes (budget {ALLOC_BUDGET}); peak live growth {} bytes", o.alloc_bytes, o.peak_live_delta), replay.clone());
    }
    if o.cpu_us > CPU_BUDGET_US {
        // CPU time is noisy on a loaded machine: confirmed by the caller with re-runs
        rep.violation(format!("C04.l2.cpu:{name}"), format!("handling {name} cost {} us of CPU (budget {CPU_BUDGET_US})", o.cpu_us), replay);
    }
}

pub fn run(args: &Args, rep: &mut Report) {
    rep.rule = "probe = one hostile frame injected into an honest server's 1-RTT packet after a short legitimate history; distinct = probe names delivered; \
                non-trivial = the victim processed the frame (connection error or acceptance observed)"
        .into();
    let table = probes();
    if let Some(path) = args.get("replay") {
        let v: Value = serde_json::from_str(&std::fs::read_to_string(path).unwrap()).unwrap();
        let v = if v.get("replay").is_some() { v["replay"].clone() } else { v };
        let name = v["probe"].as_str().unwrap_or("");
        if let Some(p) = table.iter().find(|p| p.name == name) {
            let o = run_probe(v["seed"].as_u64().unwrap_or(1), p.frames.clone());
            rep.evaluations += 1;
            judge(rep, p.name, p.expect, &o, v.clone());
        }
        return;
    }
    let shard = args.u64("shard", 0);
    let shards = args.u64("shards", 1);
    for (i, p) in table.iter().enumerate() {
        if p.frames.is_empty() || i as u64 % shards != shard {
            continue;
        }
        let replay = json!({"kind": "c04-l2", "probe": p.name, "seed": args.seed(), "frames": vcore::hex(&p.frames)});
        let mut o = run_probe(args.seed(), p.frames.clone());
        // a CPU overrun only counts if it repeats (process CPU time is noisy under load)
        if o.completed && o.cpu_us > CPU_BUDGET_US && o.alloc_bytes <= ALLOC_BUDGET {
            let o2 = run_probe(args.seed() + 1, p.frames.clone());
            let o3 = run_probe(args.seed() + 2, p.frames.clone());
            if o2.cpu_us <= CPU_BUDGET_US || o3.cpu_us <= CPU_BUDGET_US {
                rep.count("cpu_overruns_not_confirmed");
                o.cpu_us = o2.cpu_us.min(o3.cpu_us);
            }
        }
        rep.evaluations += 1;
        rep.distinct(vcore::fnv_str(p.name));
        rep.sample(json!({"leg": "l2", "probe": p.name, "frames": vcore::hex(&p.frames), "victim_error": o.client_term, "alloc_bytes": o.alloc_bytes, "cpu_us": o.cpu_us}));
        judge(rep, p.name, p.expect, &o, replay);
    }
}
