//! Scenario plumbing of the whole-stack simulator: one real `QuicListeners` server and one real
//! `QuicClient` per world, joined by a `SimNet`, on a paused-clock single-thread runtime.
use std::{
    net::SocketAddr,
    sync::{Arc, Mutex},
    time::Duration,
};

use dquic::{
    prelude::{handy::*, *},
    qbase::param::{ClientParameters, ServerParameters},
    qinterface::{component::route::QuicRouter, device::Devices, manager::InterfaceManager},
    qresolve::Source,
};
use qevent::{
    Event, GroupID, VantagePointType,
    telemetry::{ExportEvent, QLog, Span},
};
use rustls::pki_types::{CertificateDer, pem::PemObject};

use crate::sim::{SimFactory, SimNet};

pub const CA_CERT: &[u8] = include_bytes!("/repo/tests/keychain/localhost/ca.cert");
pub const SERVER_CERT: &[u8] = include_bytes!("/repo/tests/keychain/localhost/server.cert");
pub const SERVER_KEY: &[u8] = include_bytes!("/repo/tests/keychain/localhost/server.key");
pub const OTHER_CA_CERT: &[u8] = include_bytes!("/repo/tests/keychain/root/rootCA-ECC.crt");

pub fn server_addr() -> SocketAddr {
    "10.0.0.1:4433".parse().unwrap()
}
pub fn client_addr() -> SocketAddr {
    "10.0.0.2:5555".parse().unwrap()
}

/// which exporter the endpoints log through (C20's differential configurations)
#[derive(Clone, Copy, Debug, PartialEq, Eq)]
pub enum LogMode {
    Noop,
    Capture,
    /// capturing exporter that filters out every scheme whose name contains "recovery"
    Filtered,
    /// capturing exporter with raw data enabled
    Raw,
}

#[derive(Default)]
pub struct EventStore {
    pub events: Mutex<Vec<(VantagePointType, Event)>>,
}

struct CapExporter {
    store: Arc<EventStore>,
    vp: VantagePointType,
    mode: LogMode,
}

impl ExportEvent for CapExporter {
    fn emit(&self, event: Event) {
        self.store.events.lock().unwrap().push((self.vp, event));
    }
    fn filter_event(&self, scheme: &'static str) -> bool {
        match self.mode {
            LogMode::Filtered => !scheme.contains("recovery"),
            _ => true,
        }
    }
    fn filter_raw_data(&self) -> bool {
        self.mode == LogMode::Raw
    }
}

pub struct CapLogger {
    pub store: Arc<EventStore>,
    pub mode: LogMode,
}

impl QLog for CapLogger {
    fn new_trace(&self, vantage_point: VantagePointType, group_id: GroupID) -> Span {
        let exporter = Arc::new(CapExporter { store: self.store.clone(), vp: vantage_point, mode: self.mode });
        qevent::span!(exporter, group_id = group_id)
    }
}

pub fn qlogger(mode: LogMode, store: &Arc<EventStore>) -> Arc<dyn QLog + Send + Sync> {
    match mode {
        LogMode::Noop => Arc::new(NoopLogger),
        m => Arc::new(CapLogger { store: store.clone(), mode: m }),
    }
}

pub struct WorldCfg {
    pub client_params: ClientParameters,
    pub server_params: ServerParameters,
    pub log: LogMode,
    /// None = builder default (no explicit qlog call)
    pub with_qlog: bool,
    pub mtu: usize,
    /// the server's auther refuses every client at the ClientHello (CONNECTION_REFUSED in an Initial packet)
    pub refuse_clients: bool,
    /// the server presents its certificate this many times in the chain (a large first flight)
    pub cert_repeat: usize,
    /// number of extra ALPN entries the client offers (a large ClientHello, i.e. a large Initial packet)
    pub client_alpn_pad: usize,
    /// the client trusts an unrelated CA: it rejects the server's certificate with a TLS alert
    pub client_wrong_ca: bool,
}

pub struct RefuseAll;

impl AuthClient for RefuseAll {
    fn verify_client_name(&self, _: &LocalAgent, _: Option<&str>) -> ClientNameVerifyResult {
        ClientNameVerifyResult::Refuse("refused by the scenario".to_owned())
    }
    fn verify_client_agent(&self, _: &LocalAgent, _: &RemoteAgent) -> ClientAgentVerifyResult {
        ClientAgentVerifyResult::Accept
    }
}

impl Default for WorldCfg {
    fn default() -> Self {
        WorldCfg {
            client_params: client_parameters(),
            server_params: server_parameters(),
            log: LogMode::Capture,
            with_qlog: true,
            mtu: 1500,
            refuse_clients: false,
            cert_repeat: 1,
            client_alpn_pad: 0,
            client_wrong_ca: false,
        }
    }
}

pub struct World {
    pub net: SimNet,
    pub listeners: Arc<QuicListeners>,
    pub client: Arc<QuicClient>,
    pub events: Arc<EventStore>,
}

impl World {
    pub async fn new(seed: u64, cfg: WorldCfg) -> World {
        Self::new_with(seed, cfg, None).await
    }

    pub async fn new_with(seed: u64, cfg: WorldCfg, hook: Option<Box<dyn FnOnce(&SimNet) + Send>>) -> World {
        let net = SimNet::new(seed);
        net.with(|n| n.mtu = cfg.mtu);
        if let Some(hook) = hook {
            hook(&net);
        }
        let events = Arc::new(EventStore::default());
        let router = Arc::new(QuicRouter::new());
        let factory: Arc<dyn qinterface::io::ProductIO> = Arc::new(SimFactory(net.clone()));
        let manager = Arc::new(InterfaceManager::new());
        let devices: &'static Devices = Box::leak(Box::new(Devices::new()));

        let mut lb = QuicListeners::builder()
            .with_router(router.clone())
            .with_iface_factory(factory.clone())
            .with_iface_manager(manager.clone())
            .with_physical_ifaces(devices)
            .without_client_cert_verifier()
            .with_parameters(cfg.server_params);
        if cfg.with_qlog {
            lb = lb.with_qlog(qlogger(cfg.log, &events));
        }
        if cfg.refuse_clients {
            lb = lb.with_client_auther(RefuseAll);
        }
        if cfg.client_alpn_pad > 0 {
            // the server must know one of the offered protocols, otherwise its TLS stack fails the handshake
            lb = lb.with_alpns([b"verif-padding-protocol-0000".to_vec()]);
        }
        let chain: Vec<u8> = SERVER_CERT.repeat(cfg.cert_repeat.max(1));
        let listeners = lb.listen(128).expect("listen");
        listeners
            .add_server(
                "localhost",
                chain.as_slice(),
                SERVER_KEY,
                [BindUri::from(format!("inet://{}", server_addr()).as_str())],
                None,
            )
            .await
            .expect("add_server");

        let mut roots = rustls::RootCertStore::empty();
        let ca = if cfg.client_wrong_ca { OTHER_CA_CERT } else { CA_CERT };
        roots.add_parsable_certificates(CertificateDer::pem_slice_iter(ca).map(Result::unwrap));
        let mut cb = QuicClient::builder()
            .with_router(router.clone())
            .with_iface_factory(factory.clone())
            .with_iface_manager(manager.clone())
            .physical_ifaces(devices)
            .with_root_certificates(roots)
            .with_parameters(cfg.client_params)
            .without_cert();
        if cfg.with_qlog {
            cb = cb.with_qlog(qlogger(cfg.log, &events));
        }
        if cfg.client_alpn_pad > 0 {
            cb = cb.with_alpns((0..cfg.client_alpn_pad).map(|i| format!("verif-padding-protocol-{i:04}").into_bytes()));
        }
        let client = cb
            .bind([BindUri::from(format!("inet://{}", client_addr()).as_str())])
            .await
            .build();
        World { net, listeners, client: Arc::new(client), events }
    }

    pub async fn connect(&self) -> Connection {
        self.client
            .connected_to_with_source("localhost", [(Source::System, EndpointAddr::direct(server_addr()))])
            .await
            .expect("connect")
    }
}

/// Run `f` on a fresh single-thread runtime with the clock paused.  `virtual_deadline` bounds the
/// virtual time of the scenario; the result is None if it did not finish by then.
pub fn run_paused<F, T>(virtual_deadline: Duration, f: F) -> Option<T>
where
    F: Future<Output = T>,
{
    let rt = tokio::runtime::Builder::new_current_thread()
        .enable_all()
        .start_paused(true)
        .build()
        .unwrap();
    let out = rt.block_on(async move { tokio::time::timeout(virtual_deadline, f).await.ok() });
    // drop all tasks of this world before the next one starts
    rt.shutdown_timeout(Duration::from_millis(10));
    out
}
