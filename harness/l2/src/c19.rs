//! C19 (whole-stack leg) — datagrams are carried whole, within the peer's size limit, or not at all;
//! an accepted datagram on an open, uncongested connection is actually put on the wire.
use std::time::Duration;

use serde_json::{Value, json};
use vcore::{Args, Report, Rng};

use crate::{
    oracle,
    scenario::{self, Job, JobKind, ParamCfg, Spec},
    sim::FaultProfile,
    world::LogMode,
};

#[derive(Clone, Debug)]
pub struct Case {
    pub spec: Spec,
    pub limit: u32,
}

impl Case {
    fn to_json(&self) -> Value {
        json!({"kind": "c19", "limit": self.limit, "spec": self.spec.to_json()})
    }
    fn from_json(v: &Value) -> Case {
        Case { spec: Spec::from_json(&v["spec"]), limit: v["limit"].as_u64().unwrap_or(0) as u32 }
    }
}

fn gen_case(rng: &mut Rng, seed: u64) -> Case {
    let limit = *rng.pick(&[0u32, 1, 100, 1200, 1200, 65535]);
    let mut params = ParamCfg::default();
    params.datagram = limit;
    // one scenario in three: the two endpoints advertise different limits (each sender is bound by its PEER's)
    if rng.chance(1, 3) {
        let other = *rng.pick(&[0u32, 64, 100, 300, 1200]);
        if other != limit {
            params.datagram_server = Some(other);
        }
    }
    params.mtu = *rng.pick(&[1200usize, 1500]);
    let lat = Duration::from_millis(*rng.pick(&[1u64, 10]));
    let mut f = FaultProfile { latency: lat, ..Default::default() };
    if rng.chance(1, 3) {
        f.loss = rng.range(10, 200) as u32;
    }
    let n = rng.range(1, 12);
    let mut datagrams = vec![];
    for _ in 0..n {
        let size = match rng.below(6) {
            0 => 8,
            1 => (limit as usize).saturating_sub(1).max(8),
            2 => (limit as usize).max(8),
            3 => limit as usize + 1 + 8,
            4 if params.datagram_server.is_some() => {
                // between the two limits, and just around the server's
                let o = params.datagram_server.unwrap() as usize;
                *rng.pick(&[o.saturating_sub(1).max(8), o.max(8), o + 9, (o.min(limit as usize) + o.max(limit as usize)) / 2])
            }
            _ => rng.range(8, 1100) as usize,
        };
        datagrams.push((rng.bool(), size));
    }
    Case {
        spec: Spec {
            seed,
            params,
            c2s: f.clone(),
            s2c: f,
            jobs: vec![Job { kind: JobKind::BidiEcho, size: 2000, chunk: 1000 }],
            datagrams,
            log: LogMode::Capture,
            with_qlog: true,
            deadline: Duration::from_secs(30),
            clean_close: true,
        },
        limit,
    }
}

fn judge(rep: &mut Report, case: &Case, out: &scenario::Outcome) {
    let rj = case.to_json();
    for (sig, what) in oracle::check_panics(out).into_iter().chain(oracle::check_datagrams(out)) {
        rep.violation(format!("C19.l2.{sig}"), what, rj.clone());
    }
    let s = &out.shared;
    // refuse-or-accept: accepted ⇒ 1 + size <= limit; refused ⇒ it did not fit (or the extension is off)
    // the limit that binds a sender is the one its PEER advertised
    let limit_by_client = case.limit;
    let limit_by_server = case.spec.params.datagram_server.unwrap_or(case.limit);
    let peer_limit = |from_client: bool| if from_client { limit_by_server } else { limit_by_client };
    if limit_by_client != limit_by_server {
        rep.count("scenarios_with_different_limits_per_side");
    }
    for (from_client, id, size) in &s.dgram_accepted {
        rep.count("datagrams_accepted");
        let l = peer_limit(*from_client);
        if l == 0 || 1 + *size as u64 > l as u64 {
            rep.violation("C19.l2.send.accepted-oversize".to_string(), format!("datagram {id} of {size} bytes accepted ({}) although the peer's max_datagram_frame_size is {l} (own: {})", if *from_client { "client" } else { "server" }, peer_limit(!*from_client)), rj.clone());
        }
    }
    // refused => it did not fit the peer's limit (or the peer has the extension off)
    if out.shared.handshake_ms.is_some() && out.finished {
        for (i, (from_client, size)) in case.spec.datagrams.iter().enumerate() {
            let l = peer_limit(*from_client);
            let fits = l != 0 && 1 + (*size).max(8) as u64 <= l as u64;
            if fits && !s.dgram_accepted.iter().any(|(c, id, _)| c == from_client && *id == i as u64) {
                rep.violation(
                    "C19.l2.send.refused-although-fits".to_string(),
                    format!("datagram {i} of {} bytes from the {} was not accepted although the peer's max_datagram_frame_size is {l} (own: {}); send errors: {:?}", (*size).max(8), if *from_client { "client" } else { "server" }, peer_limit(!*from_client), s.dgram_send_err.iter().take(3).collect::<Vec<_>>()),
                    rj.clone(),
                );
            } else if fits {
                rep.count("fitting_datagrams_accepted");
            }
        }
    }
    let n_spec_fit = case.spec.datagrams.iter().filter(|(c, size)| peer_limit(*c) != 0 && 1 + (*size).max(8) as u64 <= peer_limit(*c) as u64).count();
    rep.add("datagrams_that_fit_the_limit", n_spec_fit as u64);
    rep.add("datagram_sends_refused", s.dgram_send_err.len() as u64);
    let rcvd = s.dgram_rcvd_client.len() + s.dgram_rcvd_server.len();
    rep.add("datagrams_read_by_peer", rcvd as u64);
    // on the wire: DATAGRAM frames in the senders' qlog
    let mut on_wire = 0u64;
    for (_vp, e) in &out.events {
        if let Ok(j) = serde_json::to_value(e) {
            if j["name"] == "quic:packet_sent" {
                if let Some(fr) = j["data"]["frames"].as_array() {
                    on_wire += fr.iter().filter(|f| f["frame_type"] == "datagram").count() as u64;
                }
            }
        }
    }
    rep.add("datagram_frames_on_wire", on_wire);
    let accepted = s.dgram_accepted.len() as u64;
    // A datagram that the size limit admits but that no packet of this path can carry (MTU) is a separate,
    // recorded defect; it also blocks every later datagram of the same sender (head of line).
    let headroom = 64usize;
    let mut expected = 0u64;
    let mut too_large = vec![];
    for from_client in [true, false] {
        let mut blocked = false;
        for (c, id, size) in s.dgram_accepted.iter().filter(|(c, _, _)| *c == from_client) {
            let _ = c;
            // packets are built for the path MTU, which stays at the 1200-byte minimum in these runs
            if !blocked && size + headroom > case.spec.params.mtu.min(1200) {
                blocked = true;
                too_large.push((*id, *size));
            }
            if !blocked {
                expected += 1;
            }
        }
    }
    if !too_large.is_empty() {
        rep.violation(
            "C19.l2.wire:larger-than-packet".to_string(),
            format!("datagram(s) {too_large:?} were accepted (peer limit {}) although no packet of this path (MTU {}) can carry them; they are never sent and block every later datagram of that sender", case.limit, case.spec.params.mtu),
            rj.clone(),
        );
    }
    // Observation channel: the peer application.  (The senders' qlog is NOT usable here: packets that carry a
    // DATAGRAM frame produce no packet_sent event at all — counted below as evidence only.)  On a loss-free
    // network every accepted datagram that fits a packet must be read by the peer.
    let lossless = case.spec.c2s.loss == 0 && case.spec.s2c.loss == 0;
    if lossless && out.shared.handshake_ms.is_some() {
        if expected > 0 && rcvd == 0 {
            rep.violation(
                "C19.l2.wire:never-offered-to-assembler".to_string(),
                format!("{accepted} datagrams were accepted on an open, uncongested, loss-free connection; the peer application read none of them within {} virtual ms", out.end_ms),
                rj.clone(),
            );
        } else if (rcvd as u64) < expected {
            rep.violation("C19.l2.wire:some-never-sent".to_string(), format!("{expected} accepted datagrams fit a packet on a loss-free network, the peer application read only {rcvd}"), rj.clone());
        } else {
            rep.add("accepted_datagrams_delivered_lossless", expected);
        }
    } else {
        rep.add("lossy_scenarios_subset_check_only", 1);
    }
}

pub fn run(args: &Args, rep: &mut Report) {
    rep.rule = "scenario = (max_datagram_frame_size on both sides, datagram sizes around the limit from both peers, optional loss); distinct = distinct case json; \
                non-trivial = at least one datagram was accepted by send()"
        .into();
    if let Some(path) = args.get("replay") {
        let v: Value = serde_json::from_str(&std::fs::read_to_string(path).unwrap()).unwrap();
        let v = if v.get("replay").is_some() { v["replay"].clone() } else { v };
        let case = Case::from_json(&v);
        let out = scenario::run(&case.spec);
        rep.evaluations += 1;
        judge(rep, &case, &out);
        if args.flag("dump") {
            dump(&out);
        }
        return;
    }
    let thorough = args.get("tier") == Some("thorough");
    let shard = args.u64("shard", 0);
    let n = args.budget(if thorough { 100 } else { 6 });
    let mut rng = Rng::new(args.seed() ^ 0xc19).fork(shard);
    for i in 0..n {
        let sseed = rng.next_u64();
        let mut r = rng.fork(i);
        let case = gen_case(&mut r, sseed);
        let out = scenario::run(&case.spec);
        rep.evaluations += 1;
        if !out.shared.dgram_accepted.is_empty() {
            rep.distinct(vcore::fnv_str(&case.to_json().to_string()));
        }
        if i == 0 {
            rep.sample(json!({"leg": "l2", "limit": case.limit, "datagrams": case.spec.to_json()["datagrams"], "accepted": out.shared.dgram_accepted.len(), "refused": out.shared.dgram_send_err.len()}));
        }
        judge(rep, &case, &out);
    }
}

pub fn dump(out: &scenario::Outcome) {
    let s = &out.shared;
    eprintln!("handshake {:?} accepted {:?} errs {:?} rcvd_c {:?} rcvd_s {:?} all_done {:?} end {}", s.handshake_ms, s.dgram_accepted, s.dgram_send_err, s.dgram_rcvd_client, s.dgram_rcvd_server, s.all_done_ms, out.end_ms);
    for (vp, e) in &out.events {
        if let Ok(j) = serde_json::to_value(e) {
            if j["name"] == "quic:packet_sent" {
                if let Some(fr) = j["data"]["frames"].as_array() {
                    let kinds: Vec<&str> = fr.iter().filter_map(|f| f["frame_type"].as_str()).collect();
                    eprintln!("  {vp:?} sent pn {} {:?}", j["data"]["header"]["packet_number"], kinds);
                }
            }
        }
    }
}
