//! l2: whole-stack simulator monitors; usage: l2 <property> --seed S --tier quick|thorough --shard i --shards n [--budget N] --out frag.json [--replay file]
mod c02;
mod c04;
mod c15;
mod c17;
mod c19;
mod c20;
pub mod oracle;
pub mod scenario;
pub mod sim;
pub mod world;
pub mod workload;

use vcore::{Args, Report};

#[global_allocator]
static ALLOC: vcore::alloc::CountingAlloc = vcore::alloc::CountingAlloc;

fn main() {
    let args = Args::parse();
    let prop = args.pos.first().cloned().unwrap_or_default();
    vcore::panics::install(!args.flag("loud"));
    let mut rep = Report::new(&prop.to_uppercase(), args.seed());
    match prop.as_str() {
        "c02" => c02::run(&args, &mut rep),
        "c04" => c04::run(&args, &mut rep),
        "c01" => c02::run_leg(&args, &mut rep, "C01"),
        "c07" => c02::run_leg(&args, &mut rep, "C07"),
        "c19" => c19::run(&args, &mut rep),
        "c15" => c15::run(&args, &mut rep),
        "c17" => c17::run(&args, &mut rep),
        "c20" => c20::run(&args, &mut rep),
        "smoke" => workload::smoke(&args, &mut rep),
        other => {
            eprintln!("unknown property {other}");
            std::process::exit(2);
        }
    }
    rep.finish(args.get("out"));
}
