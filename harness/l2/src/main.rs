//! l2: whole-stack simulator monitors; usage: l2 <property> --seed S --tier quick|thorough --shard i --shards n [--budget N] --out frag.json [--replay file]
mod c02;
mod c04;
mod c15;
mod c17;
mod c19;
mod c20;
pub mod oracle;
pub mod scenario;
pub mod sim;
pub mod world;
pub mod workload;

use vcore::{Args, Report};

#[global_allocator]
static ALLOC: vcore::alloc::CountingAlloc = vcore::alloc::CountingAlloc;

fn main() {
    let args = Args::parse();
    let prop = args.pos.first().cloned().unwrap_or_default();
    vcore::panics::install(!args.flag("loud"));
    let mut rep = Report::new(&prop.to_uppercase(), args.seed());
    // a panic that escapes the monitor's own guards (e.g. out of a Drop of a library type) still yields a fragment
    vcore::guarded(&mut rep, &args, |rep| {
        match prop.as_str() {
            "c02" => c02::run(&args, rep),
            "c04" => c04::run(&args, rep),
            "c01" => c02::run_leg(&args, rep, "C01"),
            "c07" => c02::run_leg(&args, rep, "C07"),
            "c10" => c02::run_leg(&args, rep, "C10"),
            "c19" => c19::run(&args, rep),
            "c15" => c15::run(&args, rep),
            "c17" => c17::run(&args, rep),
            "c20" => c20::run(&args, rep),
            "smoke" => workload::smoke(&args, rep),
            other => {
                eprintln!("unknown property {other}");
                std::process::exit(2);
            }
        }
    });
    rep.finish(args.get("out"));
}
