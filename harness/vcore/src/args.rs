use std::collections::BTreeMap;

/// `--key value` pairs plus positional arguments.
#[derive(Debug, Clone, Default)]
pub struct Args {
    pub pos: Vec<String>,
    pub kv: BTreeMap<String, String>,
}

impl Args {
    pub fn parse() -> Self {
        Self::from_iter(std::env::args().skip(1))
    }

    pub fn from_iter(it: impl Iterator<Item = String>) -> Self {
        let mut a = Args::default();
        let mut it = it.peekable();
        while let Some(x) = it.next() {
            if let Some(k) = x.strip_prefix("--") {
                if let Some((k, v)) = k.split_once('=') {
                    a.kv.insert(k.to_string(), v.to_string());
                } else if it.peek().map(|n| !n.starts_with("--")).unwrap_or(false) {
                    a.kv.insert(k.to_string(), it.next().unwrap());
                } else {
                    a.kv.insert(k.to_string(), "1".to_string());
                }
            } else {
                a.pos.push(x);
            }
        }
        a
    }

    pub fn get(&self, k: &str) -> Option<&str> {
        self.kv.get(k).map(|s| s.as_str())
    }

    pub fn u64(&self, k: &str, default: u64) -> u64 {
        self.get(k).and_then(|v| v.parse().ok()).unwrap_or(default)
    }

    pub fn f64(&self, k: &str, default: f64) -> f64 {
        self.get(k).and_then(|v| v.parse().ok()).unwrap_or(default)
    }

    pub fn flag(&self, k: &str) -> bool {
        self.kv.contains_key(k)
    }

    pub fn seed(&self) -> u64 {
        self.u64("seed", 1)
    }

    pub fn budget(&self, default: u64) -> u64 {
        self.u64("budget", default)
    }
}
