//! Observation report of one harness process.  The python driver merges the reports of all
//! shards into /verif/evidence/<id>.json and decides the exit code.
use std::collections::{BTreeMap, BTreeSet};

use serde_json::{Value, json};

#[derive(Debug, Clone)]
pub struct Violation {
    /// clause id plus concrete trigger, e.g. `C16.lost-wakeup:receiving.poll-then-recv`
    pub signature: String,
    /// one line for humans
    pub what: String,
    /// everything needed to re-run the failing case
    pub replay: Value,
}

#[derive(Debug, Default)]
pub struct Report {
    pub property: String,
    pub seed: u64,
    pub evaluations: u64,
    pub counters: BTreeMap<String, u64>,
    /// hashes of distinct non-trivial cases (rule stated by the monitor)
    pub distinct: BTreeSet<u64>,
    /// further named hash sets (distinct abstract states of some kind)
    pub sets: BTreeMap<String, BTreeSet<u64>>,
    pub rule: String,
    pub samples: Vec<Value>,
    pub violations: Vec<Violation>,
    /// signatures seen more than once are only counted
    pub violation_counts: BTreeMap<String, u64>,
    pub inconclusive: Vec<String>,
    pub exhaustive: Option<bool>,
    pub notes: Vec<String>,
    max_samples: usize,
    max_violations_per_sig: u64,
}

impl Report {
    pub fn new(property: &str, seed: u64) -> Self {
        Report {
            property: property.to_string(),
            seed,
            max_samples: 6,
            max_violations_per_sig: 2,
            ..Default::default()
        }
    }

    pub fn count(&mut self, k: &str) {
        self.add(k, 1);
    }

    pub fn add(&mut self, k: &str, n: u64) {
        *self.counters.entry(k.to_string()).or_insert(0) += n;
    }

    pub fn max(&mut self, k: &str, n: u64) {
        let e = self.counters.entry(k.to_string()).or_insert(0);
        if n > *e {
            *e = n;
        }
    }

    pub fn get(&self, k: &str) -> u64 {
        self.counters.get(k).copied().unwrap_or(0)
    }

    pub fn distinct(&mut self, h: u64) {
        if self.distinct.len() < 400_000 {
            self.distinct.insert(h);
        }
    }

    pub fn set(&mut self, name: &str, h: u64) {
        let s = self.sets.entry(name.to_string()).or_default();
        if s.len() < 200_000 {
            s.insert(h);
        }
    }

    pub fn sample(&mut self, v: Value) {
        if self.samples.len() < self.max_samples {
            self.samples.push(v);
        }
    }

    pub fn sample_cap(&mut self, n: usize) {
        self.max_samples = n;
    }

    pub fn inconclusive(&mut self, why: impl Into<String>) {
        let why = why.into();
        if self.inconclusive.len() < 50 {
            self.inconclusive.push(why);
        }
    }

    pub fn violation(&mut self, signature: impl Into<String>, what: impl Into<String>, replay: Value) {
        let signature = signature.into();
        let c = self.violation_counts.entry(signature.clone()).or_insert(0);
        *c += 1;
        if *c <= self.max_violations_per_sig {
            self.violations.push(Violation { signature, what: what.into(), replay });
        }
    }

    pub fn n_violations(&self) -> u64 {
        self.violation_counts.values().sum()
    }

    pub fn to_json(&self) -> Value {
        json!({
            "property": self.property,
            "seed": self.seed,
            "evaluations": self.evaluations,
            "counters": self.counters,
            "distinct": self.distinct.iter().map(|h| format!("{:016x}", h)).collect::<Vec<_>>(),
            "sets": self.sets.iter().map(|(k, s)| (k.clone(), Value::from(s.iter().map(|h| format!("{:016x}", h)).collect::<Vec<_>>()))).collect::<serde_json::Map<_, _>>(),
            "rule": self.rule,
            "samples": self.samples,
            "violations": self.violations.iter().map(|v| json!({"signature": v.signature, "what": v.what, "replay": v.replay})).collect::<Vec<_>>(),
            "violation_counts": self.violation_counts,
            "inconclusive": self.inconclusive,
            "exhaustive": self.exhaustive,
            "notes": self.notes,
        })
    }

    /// Write the fragment to `--out` (or stdout when absent).
    pub fn finish(&self, out: Option<&str>) {
        let s = serde_json::to_string(&self.to_json()).unwrap();
        match out {
            Some(p) => std::fs::write(p, s).expect("write report"),
            None => println!("{}", s),
        }
    }
}
