//! Counting global allocator: total bytes requested, live bytes and peak live bytes.
//! A harness binary opts in with `#[global_allocator] static A: CountingAlloc = CountingAlloc;`
use std::{
    alloc::{GlobalAlloc, Layout, System},
    sync::atomic::{AtomicU64, Ordering::Relaxed},
};

pub struct CountingAlloc;

static TOTAL: AtomicU64 = AtomicU64::new(0);
static LIVE: AtomicU64 = AtomicU64::new(0);
static PEAK: AtomicU64 = AtomicU64::new(0);
static CALLS: AtomicU64 = AtomicU64::new(0);

unsafe impl GlobalAlloc for CountingAlloc {
    unsafe fn alloc(&self, l: Layout) -> *mut u8 {
        let p = unsafe { System.alloc(l) };
        if !p.is_null() {
            on_alloc(l.size() as u64);
        }
        p
    }
    unsafe fn dealloc(&self, p: *mut u8, l: Layout) {
        unsafe { System.dealloc(p, l) };
        LIVE.fetch_sub(l.size() as u64, Relaxed);
    }
    unsafe fn alloc_zeroed(&self, l: Layout) -> *mut u8 {
        let p = unsafe { System.alloc_zeroed(l) };
        if !p.is_null() {
            on_alloc(l.size() as u64);
        }
        p
    }
    unsafe fn realloc(&self, p: *mut u8, l: Layout, new: usize) -> *mut u8 {
        let q = unsafe { System.realloc(p, l, new) };
        if !q.is_null() {
            LIVE.fetch_sub(l.size() as u64, Relaxed);
            on_alloc(new as u64);
        }
        q
    }
}

fn on_alloc(n: u64) {
    TOTAL.fetch_add(n, Relaxed);
    CALLS.fetch_add(1, Relaxed);
    let live = LIVE.fetch_add(n, Relaxed) + n;
    PEAK.fetch_max(live, Relaxed);
}

#[derive(Debug, Clone, Copy)]
pub struct Snapshot {
    pub total: u64,
    pub live: u64,
    pub peak: u64,
    pub calls: u64,
}

pub fn snapshot() -> Snapshot {
    Snapshot {
        total: TOTAL.load(Relaxed),
        live: LIVE.load(Relaxed),
        peak: PEAK.load(Relaxed),
        calls: CALLS.load(Relaxed),
    }
}

/// Reset the peak to the current live size (start of a measured region).
pub fn reset_peak() {
    PEAK.store(LIVE.load(Relaxed), Relaxed);
}

/// Process CPU time (user+system) in microseconds.
pub fn cpu_time_us() -> u64 {
    unsafe {
        let mut ru: libc::rusage = std::mem::zeroed();
        libc::getrusage(libc::RUSAGE_SELF, &mut ru);
        (ru.ru_utime.tv_sec as u64 + ru.ru_stime.tv_sec as u64) * 1_000_000
            + ru.ru_utime.tv_usec as u64
            + ru.ru_stime.tv_usec as u64
    }
}

/// Limit address space and CPU seconds of this process (for hostile probes).
pub fn set_rlimits(as_bytes: u64, cpu_secs: u64) {
    unsafe {
        let l = libc::rlimit { rlim_cur: as_bytes, rlim_max: as_bytes };
        libc::setrlimit(libc::RLIMIT_AS, &l);
        let l = libc::rlimit { rlim_cur: cpu_secs, rlim_max: cpu_secs + 1 };
        libc::setrlimit(libc::RLIMIT_CPU, &l);
    }
}
