//! Shared plumbing of the /verif runtime monitors: seedable PRNG, observation report
//! (counters, distinct-state hash sets, samples, violations), panic recorder, counting
//! allocator and a tiny argv parser.  No dependency on the code under test.
pub mod alloc;
pub mod args;
pub mod crash;
pub mod panics;
pub mod report;
pub mod rng;

pub use args::Args;
pub use report::{Report, Violation};
pub use rng::Rng;

/// FNV-1a over bytes, used for distinct-state hashing (stable across runs and processes).
pub fn fnv(bytes: &[u8]) -> u64 {
    let mut h: u64 = 0xcbf29ce484222325;
    for b in bytes {
        h ^= *b as u64;
        h = h.wrapping_mul(0x100000001b3);
    }
    h
}

pub fn fnv_str(s: &str) -> u64 {
    fnv(s.as_bytes())
}

/// Position-derived byte: byte `i` of logical object `obj` under `seed`.
/// Readers can validate any byte locally from (obj, i).
#[inline]
pub fn prf_byte(seed: u64, obj: u64, i: u64) -> u8 {
    let mut x = seed ^ obj.wrapping_mul(0x9e3779b97f4a7c15) ^ i.wrapping_mul(0xbf58476d1ce4e5b9);
    x ^= x >> 30;
    x = x.wrapping_mul(0xbf58476d1ce4e5b9);
    x ^= x >> 27;
    x = x.wrapping_mul(0x94d049bb133111eb);
    x ^= x >> 31;
    x as u8
}

pub fn prf_fill(seed: u64, obj: u64, off: u64, buf: &mut [u8]) {
    for (k, b) in buf.iter_mut().enumerate() {
        *b = prf_byte(seed, obj, off + k as u64);
    }
}

pub fn hex(b: &[u8]) -> String {
    let mut s = String::with_capacity(b.len() * 2);
    for x in b {
        s.push_str(&format!("{:02x}", x));
    }
    s
}

pub fn unhex(s: &str) -> Vec<u8> {
    let s: Vec<u8> = s.bytes().filter(|c| c.is_ascii_hexdigit()).collect();
    s.chunks(2)
        .map(|c| u8::from_str_radix(std::str::from_utf8(c).unwrap(), 16).unwrap())
        .collect()
}


/// Run a monitor so that a panic which escapes its own `catch` calls (for instance out of a `Drop` of a
/// library type) still ends in a written fragment: a panic raised in library code becomes a violation
/// `<PROP>.panic-escaped:<location>`, one raised in harness code an inconclusive note.  Either way the
/// observations collected so far are kept.
pub fn guarded(rep: &mut Report, args: &Args, f: impl FnOnce(&mut Report)) {
    let before = panics::count();
    let r = std::panic::catch_unwind(std::panic::AssertUnwindSafe(|| f(rep)));
    if r.is_ok() {
        return;
    }
    let rec = panics::since(before).pop();
    let (loc, msg) = rec.map(|r| (r.location, r.message)).unwrap_or_default();
    if loc.contains("/harness/") || loc.is_empty() {
        rep.inconclusive(format!("the monitor itself panicked at {loc}: {msg}"));
        return;
    }
    let short = panics::short_location(&loc);
    let prop = rep.property.clone();
    let replay = serde_json::json!({"kind": "shard", "seed": args.seed(), "tier": args.get("tier").unwrap_or("quick"),
        "shard": args.u64("shard", 0), "shards": args.u64("shards", 1), "budget": args.get("budget")});
    rep.violation(
        format!("{prop}.panic-escaped:{short}"),
        format!("library code panicked outside every guarded call of the monitor (e.g. in a Drop) at {short}: {msg}; the rest of this shard's workload was not run"),
        replay,
    );
}
