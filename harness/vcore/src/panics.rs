//! Panic recorder.  tokio swallows task panics; the hook does not.  Every panic anywhere in
//! the process is appended to a global list with message, location and (optionally) a
//! backtrace, and `catch` gives the panic of one closure.
use std::{
    panic::{self, AssertUnwindSafe},
    sync::{Mutex, OnceLock},
};

#[derive(Debug, Clone)]
pub struct PanicRecord {
    pub message: String,
    pub location: String,
    pub thread: String,
}

static LOG: OnceLock<Mutex<Vec<PanicRecord>>> = OnceLock::new();

fn log() -> &'static Mutex<Vec<PanicRecord>> {
    LOG.get_or_init(|| Mutex::new(Vec::new()))
}

/// Install the recording hook (idempotent).  `quiet` suppresses the default stderr print.
pub fn install(quiet: bool) {
    static ONCE: OnceLock<()> = OnceLock::new();
    ONCE.get_or_init(|| {
        let prev = panic::take_hook();
        panic::set_hook(Box::new(move |info| {
            let message = if let Some(s) = info.payload().downcast_ref::<&str>() {
                s.to_string()
            } else if let Some(s) = info.payload().downcast_ref::<String>() {
                s.clone()
            } else {
                "<non-string panic payload>".to_string()
            };
            let location = info
                .location()
                .map(|l| format!("{}:{}", l.file(), l.line()))
                .unwrap_or_default();
            let thread = std::thread::current().name().unwrap_or("?").to_string();
            if let Ok(mut g) = log().lock() {
                g.push(PanicRecord { message, location, thread });
            }
            if !quiet {
                prev(info);
            }
        }));
    });
}

/// Number of panics recorded so far.
pub fn count() -> usize {
    log().lock().map(|g| g.len()).unwrap_or(0)
}

/// Panics recorded with index >= `from`.
pub fn since(from: usize) -> Vec<PanicRecord> {
    log().lock().map(|g| g[from.min(g.len())..].to_vec()).unwrap_or_default()
}

pub fn drain() -> Vec<PanicRecord> {
    log().lock().map(|mut g| std::mem::take(&mut *g)).unwrap_or_default()
}

/// Run `f`, returning its value or the record of the panic it raised.
pub fn catch<T>(f: impl FnOnce() -> T) -> Result<T, PanicRecord> {
    let before = count();
    match panic::catch_unwind(AssertUnwindSafe(f)) {
        Ok(v) => Ok(v),
        Err(_) => {
            let recs = since(before);
            Err(recs.into_iter().next().unwrap_or(PanicRecord {
                message: "<panic without record>".into(),
                location: String::new(),
                thread: String::new(),
            }))
        }
    }
}

/// Strip the machine-specific prefix of a repo path so signatures are stable.
pub fn short_location(loc: &str) -> String {
    match loc.find("/repo/") {
        Some(i) => loc[i + 6..].to_string(),
        None => loc.to_string(),
    }
}
