//! Crash dump for monitors that run millions of inputs in one process: an abort of the process
//! (allocation failure -> `handle_alloc_error`, stack overflow, `abort()` in a dependency) escapes
//! `catch_unwind`, so the monitor could never say WHICH input killed it.  `arm(path)` opens `path`
//! and installs a SIGABRT/SIGBUS/SIGILL/SIGFPE handler; `set_current(label, arg, bytes)` publishes
//! the input under evaluation (pointer + length, no copy); the handler writes it with `write(2)`
//! (async-signal-safe), restores the default action and re-raises.  The driver turns a dump left by
//! a shard that died into a violation whose replay is that input.
//!
//! Layout of the dump: b"VCRASH1\n", u32 signal, u64 arg, u32 label length, label, u64 data length, data
//! (little endian).
use std::sync::atomic::{AtomicI32, AtomicPtr, AtomicU64, AtomicUsize, Ordering};

static FD: AtomicI32 = AtomicI32::new(-1);
static DATA: AtomicPtr<u8> = AtomicPtr::new(std::ptr::null_mut());
static DATA_LEN: AtomicUsize = AtomicUsize::new(0);
static LABEL: AtomicPtr<u8> = AtomicPtr::new(std::ptr::null_mut());
static LABEL_LEN: AtomicUsize = AtomicUsize::new(0);
static ARG: AtomicU64 = AtomicU64::new(0);

unsafe fn put(fd: i32, p: *const u8, n: usize) {
    let mut off = 0;
    while off < n {
        let w = unsafe { libc::write(fd, p.add(off) as *const libc::c_void, n - off) };
        if w <= 0 {
            break;
        }
        off += w as usize;
    }
}

extern "C" fn handler(sig: libc::c_int) {
    let fd = FD.load(Ordering::SeqCst);
    let data = DATA.load(Ordering::SeqCst);
    if fd >= 0 && !data.is_null() {
        let label = LABEL.load(Ordering::SeqCst);
        let ll = LABEL_LEN.load(Ordering::SeqCst) as u32;
        let dl = DATA_LEN.load(Ordering::SeqCst) as u64;
        unsafe {
            put(fd, b"VCRASH1\n".as_ptr(), 8);
            put(fd, (sig as u32).to_le_bytes().as_ptr(), 4);
            put(fd, ARG.load(Ordering::SeqCst).to_le_bytes().as_ptr(), 8);
            put(fd, ll.to_le_bytes().as_ptr(), 4);
            put(fd, label, ll as usize);
            put(fd, dl.to_le_bytes().as_ptr(), 8);
            put(fd, data, dl as usize);
            libc::fsync(fd);
        }
    }
    unsafe {
        libc::signal(sig, libc::SIG_DFL);
        libc::raise(sig);
    }
}

/// Open the dump file and install the handlers.  SIGSEGV is left to the Rust runtime (its stack
/// overflow handler ends in `abort()`, which arrives here as SIGABRT).
pub fn arm(path: &str) {
    if cfg!(miri) {
        // the interpreter has no signal delivery; an abort inside it is reported by the interpreter itself
        return;
    }
    let Ok(c) = std::ffi::CString::new(path) else { return };
    let fd = unsafe { libc::open(c.as_ptr(), libc::O_CREAT | libc::O_WRONLY | libc::O_TRUNC, 0o644) };
    if fd < 0 {
        return;
    }
    FD.store(fd, Ordering::SeqCst);
    for sig in [libc::SIGABRT, libc::SIGBUS, libc::SIGILL, libc::SIGFPE] {
        unsafe {
            libc::signal(sig, handler as extern "C" fn(libc::c_int) as libc::sighandler_t);
        }
    }
}

/// `<out>.crash` next to the fragment the driver asked for (nothing without `--out`).
pub fn arm_from_args(args: &crate::Args) {
    if let Some(out) = args.get("out") {
        arm(&format!("{out}.crash"));
    }
}

/// Publish the input that is about to be evaluated.  `bytes` must stay alive and unmoved until the
/// next `set_current` / `clear` (the monitors call this at the top of their per-case function with
/// the slice they were given).
#[inline]
pub fn set_current(label: &'static str, arg: u64, bytes: &[u8]) {
    DATA.store(std::ptr::null_mut(), Ordering::SeqCst);
    LABEL.store(label.as_ptr() as *mut u8, Ordering::SeqCst);
    LABEL_LEN.store(label.len(), Ordering::SeqCst);
    ARG.store(arg, Ordering::SeqCst);
    DATA_LEN.store(bytes.len(), Ordering::SeqCst);
    // a dangling-but-non-null pointer for the empty slice is fine: length 0 is written
    DATA.store(bytes.as_ptr() as *mut u8, Ordering::SeqCst);
}

#[inline]
pub fn clear() {
    DATA.store(std::ptr::null_mut(), Ordering::SeqCst);
}
