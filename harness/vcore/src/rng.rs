/// xoshiro256** seeded by splitmix64; no external crate so the monitors' randomness is
/// independent of the `rand` version the code under test uses.
#[derive(Clone, Debug)]
pub struct Rng {
    s: [u64; 4],
}

fn splitmix(x: &mut u64) -> u64 {
    *x = x.wrapping_add(0x9e3779b97f4a7c15);
    let mut z = *x;
    z = (z ^ (z >> 30)).wrapping_mul(0xbf58476d1ce4e5b9);
    z = (z ^ (z >> 27)).wrapping_mul(0x94d049bb133111eb);
    z ^ (z >> 31)
}

impl Rng {
    pub fn new(seed: u64) -> Self {
        let mut x = seed;
        Rng {
            s: [splitmix(&mut x), splitmix(&mut x), splitmix(&mut x), splitmix(&mut x)],
        }
    }

    /// derive an independent stream
    pub fn fork(&mut self, salt: u64) -> Rng {
        Rng::new(self.next_u64() ^ salt.wrapping_mul(0x9e3779b97f4a7c15))
    }

    pub fn next_u64(&mut self) -> u64 {
        let r = self.s[1].wrapping_mul(5).rotate_left(7).wrapping_mul(9);
        let t = self.s[1] << 17;
        self.s[2] ^= self.s[0];
        self.s[3] ^= self.s[1];
        self.s[1] ^= self.s[2];
        self.s[0] ^= self.s[3];
        self.s[2] ^= t;
        self.s[3] = self.s[3].rotate_left(45);
        r
    }

    /// uniform in [0, n) (n > 0)
    pub fn below(&mut self, n: u64) -> u64 {
        debug_assert!(n > 0);
        ((self.next_u64() as u128 * n as u128) >> 64) as u64
    }

    /// uniform in [lo, hi] inclusive
    pub fn range(&mut self, lo: u64, hi: u64) -> u64 {
        lo + self.below(hi - lo + 1)
    }

    pub fn usize(&mut self, n: usize) -> usize {
        self.below(n as u64) as usize
    }

    pub fn chance(&mut self, num: u64, den: u64) -> bool {
        self.below(den) < num
    }

    pub fn bool(&mut self) -> bool {
        self.next_u64() & 1 == 1
    }

    pub fn pick<'a, T>(&mut self, xs: &'a [T]) -> &'a T {
        &xs[self.usize(xs.len())]
    }

    pub fn fill(&mut self, buf: &mut [u8]) {
        for c in buf.chunks_mut(8) {
            let v = self.next_u64().to_le_bytes();
            c.copy_from_slice(&v[..c.len()]);
        }
    }

    pub fn bytes(&mut self, n: usize) -> Vec<u8> {
        let mut v = vec![0u8; n];
        self.fill(&mut v);
        v
    }

    pub fn shuffle<T>(&mut self, xs: &mut [T]) {
        for i in (1..xs.len()).rev() {
            let j = self.usize(i + 1);
            xs.swap(i, j);
        }
    }

    /// a value biased to varint width boundaries in [0, 2^62)
    pub fn varint_boundary(&mut self) -> u64 {
        const B: [u64; 14] = [
            0,
            1,
            62,
            63,
            64,
            65,
            16382,
            16383,
            16384,
            16385,
            (1 << 30) - 1,
            1 << 30,
            (1 << 30) + 1,
            (1 << 62) - 1,
        ];
        match self.below(4) {
            0 => *self.pick(&B),
            1 => self.below(64),
            2 => self.below(1 << 14),
            _ => self.next_u64() >> (2 + self.below(60)),
        }
    }
}
