#!/bin/sh
# usage: driver/mkscratch.sh <name>
# Creates /root/scratch/<name>/repo (detached git worktree of /repo HEAD, for hand-made breaking
# edits) and /root/scratch/<name>/harness (copy of /verif/harness whose path dependencies point at
# that worktree, target dir /root/scratch/<name>/target).  Remove with driver/rmscratch.sh <name>.
set -e
D=/root/scratch/$1
mkdir -p "$D"
git -C /repo worktree add --detach "$D/repo" HEAD >/dev/null
rsync -a --exclude target /verif/harness/ "$D/harness/"
sed -i "s#\"/repo/#\"$D/repo/#g" "$D/harness/Cargo.toml"
sed -i "s#/verif/target#$D/target#" "$D/harness/.cargo/config.toml"
echo "$D"
