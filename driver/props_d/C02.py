from props import prop, Q, T

prop(
    "C02",
    engine="L2 whole-stack simulator",
    level="fault_enumeration",
    technique="runtime monitoring of real client+server over a fault-injecting in-memory network under virtual time: PRF byte oracle, panic hook, qlog packet-uniqueness monitor, bounded-progress / bounded-failure deadlines",
    level_text="Real dquic QuicClient and QuicListeners exchange PRF-coded stream data through SimNet (an in-memory qinterface::io::IO) whose seeded fault "
    "pipeline drops, delays/reorders, duplicates, truncates and bit-flips datagrams and applies black-outs, one-way mutes and 100 % corruption, all under tokio "
    "virtual time. Oracles: every byte read equals the byte written at that offset, EOF only after the last byte; any panic in any task is a violation; the "
    "qlog of each endpoint never shows one packet number accepted twice while the connection is live; bounded-fault scenarios complete handshake and all transfers "
    "before faults_end + 60 s (+ size allowance); unbounded-fault scenarios resolve every application future (and tell both applications) before "
    "T_b + idle_client + idle_server + 10 s, classified by trigger (quiescent / handshake / data-in-flight).",
    level_note="Trusted: SimNet, the PRF generators, the qlog-based packet monitor (C20 checks qlog is observational). Liveness is decided only as bounded progress in virtual time. "
    "Runs are reproducible up to the library's own entropy (CIDs, TLS randoms).",
    design_ref="DESIGN.md §3 C02",
    legs=[dict(name="sim", crate="l2", sub="c02", shards={Q: 16, T: 16}, budget={Q: 16, T: 120}, timeout={Q: 900, T: 7200}),
          dict(name="asan", kind="asan", crate="l2", sub="c02", tiers=(T,), budget={T: 8}, timeout=5400, mandatory=False)],
    floors={Q: {"bounded_scenarios": 60, "bounded_all_transfers_completed": 50, "unbounded_class_quiescent": 8, "stream_bytes_validated": 5_000_000,
                "faults_dropped": 500, "faults_duplicated": 100, "faults_bitflipped": 50, "faults_truncated": 50, "faults_reordered": 100, "qlog_packet_received": 20000}},
    assumptions=["the simulated network replaces qudp/real sockets", "virtual time (tokio paused clock) drives every timer of the stack"],
)
