from props import prop, Q, T

prop(
    "C07",
    level="exploration",
    technique="runtime monitor: ledger of built packets over real ArcSentJournal guards + tx::PacketWriter/TrivialPacketWriter with real keys (wire nonce verified by opening each packet); "
    "exhaustive / boundary sweep of PacketNumber::encode -> wire -> decode",
    level_text="(a) Generated histories drive one sent journal per space through the production assembly shape (new writer -> assemble_packet(Packages((sources, PadTo20))) -> drop on Err / "
    "encrypt_and_protect_packet on Ok): abandoned before recording (refused buffer, empty source), trivial-only packets (ack/ping/padding/path-challenge -> Skipped record), packets with 1..4 reliable frames, "
    "closing packets via TrivialPacketWriter, 0-RTT and 1-RTT sharing the data space, two paths with different timeouts alternating, interleaved with rotate() ack / loss / fast-retransmit and virtual-time "
    "advances past retransmit/expiry deadlines; one 34k-packet run without acks per shard reaches 3-byte truncation. Per space the pn of built packets must be strictly increasing, the AEAD nonce on the wire "
    "(packet opened with rustls keys) must be the reported pn, and the truncated pn must reconstruct at largest-acked+1, mid and pn. "
    "(b) decode(wire(encode(pn, acked)), expected) == pn exhaustively for pn < 384 (1024 thorough) over all acked and expected, for pn < 4096 over all acked x {acked+1, mid, pn}, and for every "
    "delta 1..2^16, 2^23+-1, 2^24, 2^31-1 and random deltas x acked at every width boundary and at 2^62-1-delta x expected in {acked+1, mid, pn}. A third of the whole-stack scenarios are one short echo followed by 10-40 datagrams from both sides on an otherwise idle connection, so that packets carrying nothing but a DATAGRAM frame (frames the sent journal does not track) are built and must consume their number too.",
    level_note="Record-then-abandon is not driven: production assemble() only drops a writer when nothing was written, and every production Package records what it writes. "
    "Gaps (numbers burnt by abandoned assemblies) are counted, not flagged: the property only demands strict increase. 4-byte truncation in the ledger would need 2^23 unacknowledged packets; it is covered by (b) only.",
    design_ref="DESIGN.md §3 C07",
    legs=[dict(name="ledger", crate="l1conn", sub="c07", shards={Q: 8, T: 16}, budget={Q: 20000, T: 300000}, timeout=1500),
          dict(name="l2", crate="l2", sub="c07", shards={Q: 8, T: 16}, budget={Q: 4, T: 150}, timeout={Q: 900, T: 7200})],
    floors={
        Q: {
            "l2_scenarios_with_datagram_only_packets": 4,
            "ledger_histories": 100000,
            "built_packets_initial": 400000,
            "built_packets_handshake": 400000,
            "built_packets_data": 1000000,
            "abandoned_nothing_to_send": 400000,
            "abandoned_writer_refused_buffer": 100000,
            "built_trivial_only(Skipped record)": 800000,
            "built_closing(TrivialPacketWriter)": 100000,
            "acks_accepted": 200000,
            "frames_fed_back_lost": 100000,
            "wire_pn_width_3": 4000,
            "consecutive_built_packets_on_different_paths": 1000000,
            "consecutive_built_packets_0rtt_vs_1rtt_in_data_space": 100000,
            "sweep_exhaustive_small_triples": 9_000_000,
            "sweep_exhaustive_pn_below_4096_triples": 33_000_000,
            "sweep_delta_triples": 3_000_000,
            "sets.sweep_widths": 3,
            "distinct": 50000,
        }
    },
    assumptions=[
        "one task drives a journal at a time (guards hold the journal's mutex, as in production)",
        "the peer acknowledges only packets that were sent (the ack operations never exceed the largest built pn; C04 covers hostile acks)",
    ],
)
