from props import prop, Q, T

prop(
    "C20",
    engine="L2 whole-stack simulator",
    level="exploration",
    technique="runtime monitoring: every qlog event captured from real lossy connection lifetimes is checked for well-formedness, round-trip and legacy conversion; differential runs of one seeded scenario under five exporter configurations",
    level_text="(a) Every qevent::Event emitted by real client and server connections (handshake, transfers under loss/reordering/duplication/corruption, idle failure, clean close), captured by a collecting "
    "ExportEvent, must serialise to a JSON object with time/name/data/group_id, parse back to an equal event (text-level comparison, 1e-12 relative float tolerance) and convert to the legacy format "
    "without panicking; the process-wide panic hook catches Span::load panics. (b) The same seeded scenario (same fault-decision stream) runs with no qlog call, the no-op logger, a capturing "
    "exporter, a filtering exporter and a raw-data exporter; the application-visible outcome record (per stream bytes/EOF/error, handshake, termination kinds) must be identical.",
    level_note="Only event kinds the workloads actually emit are covered (listed in the evidence counters kind_*). The raw_data cargo feature of qevent is not enabled (second build not made); the raw-data exporter "
    "configuration exercises filter_raw_data()=true only. Outcome equality is modulo the library's own entropy.",
    design_ref="DESIGN.md §3 C20",
    legs=[dict(name="sim", crate="l2", sub="c20", shards={Q: 16, T: 16}, budget={Q: 2, T: 40}, timeout={Q: 900, T: 7200})],
    floors={Q: {"events_checked": 100_000, "sets.event_kinds": 10, "differential_pairs_equal": 100, "distinct": 12}},
    assumptions=["qlog capture through the public QLog/ExportEvent traits with the telemetry feature enabled"],
)
