from props import prop, Q, T

prop(
    "C06",
    level="exploration",
    technique="runtime monitor: real PacketWriter + encrypt_and_protect_packet -> real PacketReader + CipherPacket::decrypt_* with keys of a real "
    "in-memory rustls QUIC handshake; bit-exact comparison, independent rustls opener/sealer, single-bit-flip campaigns, wrong-pn / wrong-key presentations, key-update scripts",
    level_text="Every case runs a real TLS 1.3 QUIC handshake (rustls, ring; three cipher suites rotate) and builds one protected packet with "
    "PacketWriter::{new_long,new_short} (base writer with raw bytes, or the qevent wrapper with real frames and PadTo20): Initial (tokens of 0/1/63/64/200 bytes), "
    "0-RTT, Handshake, 1-RTT in both key phases after 0..3 real key updates; DCID/SCID lengths 0..20 enumerated, all four pn widths, pn up to 2^62-1, "
    "packet sizes from the 20-byte sampling minimum to 1452+. The packet is (1) opened and re-sealed by an independent RFC 9001 opener/sealer using the rustls keys directly "
    "(wire image must be bit-identical), (2) recovered through PacketReader -> CipherPacket::decrypt_{long,short}_packet (production pn decoder ArcRcvdJournal::decode_pn for small numbers) "
    "and compared field by field and byte by byte, (3) attacked: every single-bit flip (all bits < 400 bytes and in the thorough tier, else header+pn+sample+tag bits and 256 random payload bits), "
    "pn contexts reconstructing pn+-1 / pn+-window, other direction's / other connection's / other level's / next-generation keys, authentic packets with reserved bits set; none may ever be delivered. "
    "A modified packet must be dropped silently: a connection error raised before authentication (reserved-bit check ahead of the AEAD) is flagged too. Key-update scripts check both phases round-trip across update(), reordered old-phase packets before phase_out, rejection after it, and the production-like sequence in which nobody calls phase_out (known finding C06.keyupdate.second-update:old-keys-never-retired). Coalesced Initial+Handshake+1-RTT datagrams are recovered packet by packet.",
    level_note="Trusted: rustls/ring (AEAD, header-protection mask, key schedule) and the 60-line independent opener/sealer. Keys of a failing case are not reproducible bit for bit "
    "(TLS randomness); replays re-run the same case shape with fresh keys. A corrupted header that panics the header parser is C03's finding and is only counted here.",
    design_ref="DESIGN.md §3 C06",
    legs=[dict(name="protect", crate="l1conn", sub="c06", shards={Q: 8, T: 16}, budget={Q: 3500, T: 8000}, timeout=1500)],
    floors={
        Q: {
            "roundtrips_ok": 15000,
            "flips_evaluated": 10_000_000,
            "wire_images_equal_to_independent_sealer": 15000,
            "sets.pn_widths": 4,
            "sets.dcid_lens": 21,
            "sets.scid_lens": 21,
            "sets.token_lens": 5,
            "packets_built_initial": 3000,
            "packets_built_0rtt": 3000,
            "packets_built_handshake": 3000,
            "packets_built_1rtt": 5000,
            "one_rtt_cases_phase_1": 2000,
            "key_generations_advanced_by_real_packets": 5000,
            "keyupdate_scenarios_with_phase_out": 300,
            "keyupdate_old_phase_after_phase_out_presented": 300,
            "coalesced_datagrams_recovered": 500,
            "packets_at_sampling_minimum(20-byte payload)": 500,
            "wrong_pn_contexts_evaluated": 40000,
            "wrong_key_presentations": 40000,
            "reserved_bits_packets_presented": 40000,
            "suite_chacha20poly1305": 3000,
            "suite_aes256gcm": 3000,
            "distinct": 12000,
        }
    },
    assumptions=[
        "rustls/ring implement RFC 9001 AEAD and header protection correctly (they are the reference of the independent opener/sealer)",
        "0-RTT packet type is exercised with same-suite directional keys derived by rustls from a random secret (0-RTT key derivation is not part of the property)",
    ],
)
