from props import prop, Q, T

prop(
    "C08",
    level="exploration",
    technique="runtime monitor: real RecvBuf vs byte-array reference model, checked after every operation; exhaustive for short streams",
    level_text="Every observable of the real qrecovery::recv::RecvBuf (recv return, bytes produced by try_read/try_next, nread, "
    "largest_offset, available, is_readable, running sum of recv returns) is compared with a byte-array reference model after every "
    "operation of generated histories: exhaustively for all fragment sequences over short streams (quick: 5 bytes / <=3 fragments x 5 reader "
    "actions, thorough: 6 bytes / <=4 fragments) and randomly for streams up to 64 KiB with heavy overlap, duplication and containment.",
    level_note="Trusted: the reference model (40 lines) and the PRF content generator. Fragments are always consistent slices of one content, as the property states.",
    design_ref="DESIGN.md §3 C08",
    legs=[dict(name="recvbuf", crate="l1rec", sub="c08", shards={Q: 8, T: 16}, budget={Q: 2500, T: 40000}, timeout=1500),
          dict(name="miri", kind="miri", crate="l1rec", sub="c08", tiers=(T,), args=["--interp", "1"], budget={T: 2}, timeout=5400, mandatory=False)],
    floors={Q: {"exhaustive_histories": 1_000_000, "random_step_checks": 100_000, "distinct": 1000}},
    assumptions=["fragments are slices of one underlying byte sequence (the property's premise)", "single-threaded use of RecvBuf (it is owned by a mutex-protected receiver in production)"],
)
