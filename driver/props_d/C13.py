from props import prop, Q, T

prop(
    "C13",
    level="exploration",
    technique="runtime monitor: real qcongestion::ArcCC (NewReno) under tokio paused time vs a sent-packet ledger and the RFC 9002 "
    "rules, checked after every operation through the read-only verif_snapshot() hook",
    level_text="The real ArcCC is driven through the Transport trait (on_pkt_sent, on_ack_rcvd with real AckFrames incl. ECN counts, "
    "send_quota, do_tick, discard_epoch, on_pkt_rcvd, handshake-phase toggles, both roles) by generated closed-loop histories "
    "(tiny network/receiver model with loss, reordering, CE marks, delayed ACKs, black-outs) mixed with hostile ACK patterns, all in "
    "virtual time. After every operation ten separately-signed clauses are evaluated on the Feedback::may_loss call-backs and the "
    "snapshot: (a) loss only with a later ack, (b) loss only at >= 3 packets reordering or >= time threshold, (c) never an acked / "
    "already-lost / unknown packet, (d) loss timer armed while ack-eliciting packets are outstanding and bounded progress "
    "(ack, loss or probe) in virtual time, (e) PTO arming value = RFC period * 2^pto_count, pto_count only reset by acks/key discard, "
    "consecutive expiries double, (f) cwnd >= 2 datagrams, (g) one window reduction per round trip, (h) growth only on acks of "
    "packets sent outside recovery and bounded by the acked bytes, (i) bytes_in_flight == ledger sum, (j) send_quota grants no "
    "full datagram while bytes_in_flight >= cwnd.",
    level_note="Trusted: the ledger (updated only from the harness's own sends/acks/discards and the may_loss call-backs), the RFC 9002 "
    "formulas re-stated in the oracle, tokio's paused clock. RTT estimation is not checked: thresholds use the controller's own "
    "smoothed_rtt/rttvar from the snapshot (plus the 9/8 factor check).",
    design_ref="DESIGN.md §3 C13",
    legs=[dict(name="cc", crate="l1rec", sub="c13", shards={Q: 16, T: 16}, budget={Q: 3000, T: 40000}, timeout=3600)],
    floors={
        Q: {
            "snapshots": 5_000_000,
            "loss_declarations": 500_000,
            "loss_by_packet_threshold_ok": 200_000,
            "loss_by_time_threshold_ok": 10_000,
            "acks_with_newly_acked": 300_000,
            "acks_of_packets_already_declared_lost": 50_000,
            "window_reductions": 100_000,
            "shrink_checks_against_previous_reduction": 20_000,
            "window_reductions_by_ecn_only": 3_000,
            "window_increases": 100_000,
            "pto_expiries": 5_000,
            "pto_arming_checks": 10_000,
            "pto_interval_ratio_checks": 300,
            "timer_armed_checks": 2_000_000,
            "timer_liveness_checks": 500_000,
            "timer_rearm_after_ack_checks": 100_000,
            "quota_granted": 500_000,
            "bif_checks": 5_000_000,
            "distinct": 10_000,
            "sets.controller_states": 500,
        }
    },
    assumptions=[
        "single path: packet numbers per epoch increase; ACK ranges start and end on packets sent on this path",
        "every send is preceded by a successful send_quota() and stays within the granted quota (production order)",
        "ack-eliciting packets are in flight; the path MTU is constant (production never changes it)",
        "no sends or acks in an epoch after it was discarded",
    ],
)
