from props import prop, Q, T

prop(
    "C16",
    level="exploration",
    technique="runtime monitor: probe-poll oracle over exhaustively enumerated and random waiter/notifier schedules of the real types; real-thread stress for the lock-free paths",
    level_text="For 28 hand-written waiter/notifier protocols of the real crates (SendWaker/ArcSendWakers, ArcAsyncDeque, ArcReceiving, ArcKeys/"
    "ArcZeroRttKeys/ArcOneRttKeys, ArcParameters client+server, ArcLocalStreamIds, ArcCidCell::borrow_cid+SendWaker, AntiAmplifier::balance+"
    "SendWaker, DataStreams open_bi/open_uni (ready and before peer parameters), Writer poll_write/poll_flush/poll_shutdown, Reader "
    "poll_read/poll_next, accept_bi/accept_uni, crypto stream reader and writer flush, DatagramReader::poll_recv) every sequence of <= 3 waiter "
    "events (poll / spurious re-poll; 1 waiter, and 2 waiters where the API admits concurrent waiters) merged in every order with <= 3 notifier "
    "operations of the protocol's legal grammar (quick tier: <= 2 notifier ops for the 2-waiter runs) is executed on a fresh instance, plus seeded random "
    "schedules of 5-16 events and all their prefixes.  Waiters are explicit state machines with counting wakers: an asleep task is polled again only "
    "after its waker was invoked (or when the schedule declares a spurious poll).  Oracle: after a close/fail/invalid/reset/stop operation every "
    "asleep waiter's waker must have been invoked; at the end runnable waiters run to quiescence and every waiter that is asleep with an un-invoked "
    "waker is polled once more - Ready means a satisfied condition with nobody going to wake the task.  Real-thread leg: waiter loop and notifier on two OS "
    "threads (AntiAmplifier+SendWaker, SendWaker), verdict from wake counts after the notifier thread is joined.",
    level_note="Trusted: the waiter state machine (c16.rs run_schedule), the per-protocol legal grammars (ops that production cannot issue are excluded: "
    "set_keys after invalid, second remote-parameter delivery, NEW_CONNECTION_ID before the initial DCID, acks of unsent data). Interleaving is at the granularity "
    "of the lock-protected public operations; inside-the-lock pre-emption is only reached by the real-thread leg (native scheduling, no Miri/TSan leg yet). "
    "Two-waiter runs exist only where the API lets two tasks wait (ArcAsyncDeque, keys, crypto streams panic/assert on a second waiter by design and are run with one).",
    design_ref="DESIGN.md §3 C16",
    legs=[
        dict(name="sched", crate="l1conn", sub="c16", shards={Q: 16, T: 16}, budget={Q: 150, T: 2500}, timeout=1500),
        dict(name="threads", crate="l1conn", sub="c16", shards={Q: 4, T: 8}, budget={Q: 1500, T: 25000}, timeout=1500, args=["--leg", "threads"]),
    ],
    floors={
        Q: {
            "exhaustive_schedules": 200_000,
            "random_schedules": 50_000,
            "probe_polls": 50_000,
            "close_checks": 10_000,
            "waker_invocations_observed": 100_000,
            "threads.aa.iterations": 4_000,
            "threads.sendwaker.iterations": 4_000,
            "distinct": 50_000,
        }
    },
    assumptions=[
        "each waiter task polls only when runnable (after its waker was invoked) or spuriously; wakers are the std task::Waker contract",
        "notifier operations follow the legal grammar of each protocol (what production callers can issue)",
        "one waiter per object where the type asserts single-task use (ArcAsyncDeque, keys, crypto stream)",
    ],
)
