from props import prop, Q, T

prop(
    "C14",
    level="exploration",
    technique="runtime monitor: real ArcLocalCids + QuicRouterRegistry + QuicRouter (wired as in qconnection::builder) and real ArcRemoteCids/ArcCidCell "
    "against set/ledger models checked after every operation; router table probed with crafted short-header packets through QuicRouter::try_deliver",
    level_text="(a) Local ids + router: generated histories over 1-3 connections on one shared QuicRouter (create with gen_unique_cid + "
    "registry_on_issuing_scid + optional ODCID entry, set_limit 2..8, RETIRE_CONNECTION_ID for live / already retired / never issued numbers, clear, drop, "
    "drop of the ODCID entry). After every op: captured NEW_CONNECTION_ID numbers are consecutive, retire_prior_to <= sequence, ids unique on the router, "
    "unretired ids <= peer limit (2 before it is known), exactly one new id per effective retirement, none for a repeated one, error "
    "(ConnectionIdLimit/ProtocolViolation) and no state change for a never-issued number; and EVERY id ever handed out on the router is probed with a "
    "short-header packet: delivered to exactly its own connection's queue iff live, unroutable once retired / cleared / dropped, never to another queue. "
    "(b) Peer ids: histories over one ArcRemoteCids (limit 2..8) with 1-4 paths (plus a path-churn family): NEW_CONNECTION_ID frames over numbers 0..42 "
    "in any order incl. duplicates, retransmissions, reordering and a hostile peer; borrow/release per path, path retirement, new paths. Oracle: borrowed id "
    "is an id the peer issued and for which no RETIRE_CONNECTION_ID was emitted; two live paths never use the same id; a renewed path never returns a "
    "number below retire_prior_to when enough usable ids exist; a path is not starved when enough usable ids exist; RETIRE_CONNECTION_ID never twice for "
    "a number, never for an unknown number >= retire_prior_to, never for an id a path currently holds, exactly once per abandoned number at quiescence; a "
    "frame after which the active-id count exceeds the local limit must be refused, refusals carry ConnectionIdLimit.",
    level_note="Not judged (counted in evidence only): a path that keeps an id below retire_prior_to because the peer supplied fewer usable ids than there are "
    "live paths (remote_stuck_paths; the property says 'by switching' and there is nothing to switch to), outstanding < limit after set_limit when a "
    "retirement preceded it, and refusals the limit did not require (remote_limit_errors_not_required_by_limit: with path churn an honest peer is refused "
    "with CONNECTION_ID_LIMIT once seq - retire_prior_to > limit although at most `limit` ids are active; replay findings/C14.note.spurious-connection-id-limit-error.json). "
    "ArcLocalCids::clear is treated as terminal (its only production caller is Drop). Sequence numbers stay <= 45: unbounded-range cost is C04's. "
    "Routing of zero-length DCIDs by address and the qconnection packet loop are not exercised (L2).",
    design_ref="DESIGN.md §3 C14",
    legs=[dict(name="cids", crate="l1conn", sub="c14", shards={Q: 8, T: 16}, budget={Q: 20000, T: 100000}, timeout=1500)],
    floors={
        Q: {
            "router_probes": 5_000_000,
            "router_probes_hit_own_queue": 2_000_000,
            "router_probes_unroutable_as_expected": 2_000_000,
            "local_retire_effective": 100_000,
            "local_retire_duplicate": 50_000,
            "local_retire_never_issued": 100_000,
            "max_connections_on_router": 3,
            "remote_frames_duplicate": 50_000,
            "remote_frames_reordered": 50_000,
            "remote_borrows_ok": 200_000,
            "remote_path_switches": 50_000,
            "remote_rpt_advances": 100_000,
            "remote_retire_frames": 200_000,
            "remote_limit_errors": 5_000,
            "remote_quiescence_checks": 30_000,
            "max_paths": 4,
            "distinct": 50_000,
        }
    },
    assumptions=[
        "one outstanding BorrowedCid per path at a time (one packet assembled per path at a time, as in path/burst.rs)",
        "apply_initial_dcid happens once, before any NEW_CONNECTION_ID frame (asserted by the library; 1-RTT frames follow the first Initial)",
        "duplicate NEW_CONNECTION_ID frames carry identical content; retire_prior_to <= sequence and non-empty ids are enforced by the frame decoder (C03/C05)",
        "ids are random 8-byte values: uniqueness on the router is checked, collisions are not forced",
    ],
)
