from props import prop, Q, T

prop(
    "C09",
    level="exploration",
    technique="runtime monitor: real SendBuf / crypto-stream sender / data-stream sender (Writer+Outgoing through DataStreams) vs a "
    "per-byte colour model (pending/flight/lost/acknowledged + content), checked after every operation",
    level_text="Generated histories of write / window extension / pick-up with arbitrary size and flow limits / acknowledgement and "
    "loss reports of previously picked ranges (any order, any number of times: ack after loss, loss after ack, repeated ack) / "
    "resend_flighting are run on the real qrecovery::send::SendBuf. After every operation the result of pick_up (range, fresh flag, "
    "concatenated data) is compared with the exact prediction of a per-byte colour model (lowest-offset lost or in-window never-sent "
    "byte, extended to the end of its colour run, clipped by predicate / flow limit), and written(), sent(), remaining_mut(), max_data(), "
    "is_all_rcvd() with the model; a byte is handed out as new data at most once; at the end every lost byte must be offered again, "
    "lowest first. The same generator drives the crypto stream (poll_write / try_load_data_into incl. force / on_data_acked / "
    "may_loss_data, every emitted CRYPTO frame predicted exactly, poll_flush completion) and one stream of a real DataStreams "
    "(Writer::write, MAX_STREAM_DATA, MAX_DATA, try_load_data_into with packet sizes 0..1200, on_data_acked / may_loss_data with the "
    "emitted STREAM frames, poll_shutdown): offered bytes only lost or never-sent in-window, lowest first, original data, new data "
    "charged to connection flow control exactly once, FIN flag exactly on the frame ending at the final size, lost bytes / lost FIN "
    "offered again whenever the packet has room, poll_flush / poll_shutdown complete exactly when everything (and the FIN) is acknowledged.",
    level_note="Trusted: the colour model (array of colours, ~80 lines), the PRF content generator, the recording packet target. "
    "Ack/loss reports name only ranges that an earlier pick-up returned (what the sent journal feeds back in production). "
    "forget_sent_state (0-RTT rejection) is exercised only before any acknowledgement and earlier ranges are then no longer reported. "
    "Stream-leg frame extents are not predicted (scheduling tokens are policy), only bounded by colour run, window and credit. "
    "A non-empty pick-up that stops short of the predicted end, or that starts at another offerable position (a lost run, or the lowest "
    "never-sent byte, within the limits at that offset), is tolerated and counted: the property fixes neither extent nor order, only that "
    "lost bytes are offered again (decided by the final drain). On the current tree short picks occur only where an earlier pick-up / write "
    "cut the map (resend_flighting leaves equal-coloured neighbours un-merged) and out-of-order picks never; a duplicate bare FIN "
    "frame is accepted (a lost empty FIN leaves a zero-length Lost entry in the colour map that is offered once more).",
    design_ref="DESIGN.md §3 C09",
    legs=[dict(name="sendbuf", crate="l1rec", sub="c09", shards={Q: 16, T: 16}, budget={Q: 10000, T: 600000}, timeout=3600),
          dict(name="miri", kind="miri", crate="l1rec", sub="c09", tiers=(T,), args=["--interp", "1"], budget={T: 12}, timeout=3600, mandatory=False)],
    floors={
        Q: {
            "sndbuf_step_checks": 500_000,
            "sndbuf_picks_ok": 100_000,
            "sndbuf_reoffered_bytes": 100_000,
            "sndbuf_ack_after_loss": 5_000,
            "sndbuf_loss_after_ack": 5_000,
            "sndbuf_repeated_ack": 2_000,
            "sndbuf_completions_observed": 1_000,
            "crypto_picks_ok": 20_000,
            "crypto_reoffered_bytes": 10_000,
            "stream_frames_emitted": 20_000,
            "stream_reoffered_bytes": 10_000,
            "stream_fin_sent": 500,
            "stream_fin_resent": 50,
            "stream_finished_data_rcvd": 300,
            "sets.colour_patterns": 500,
            "sets.ack_loss_contexts": 150,
            "distinct": 5_000,
        }
    },
    assumptions=[
        "single-threaded use of each sender (production wraps them in a mutex)",
        "acknowledgement / loss reports name exactly ranges that were handed out earlier (sent-journal feedback)",
        "predicate allowances are >= 1 byte when they are Some (true of StreamFrame/CryptoFrame::estimate_max_capacity)",
    ],
)
