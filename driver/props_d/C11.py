from props import prop, Q, T

prop(
    "C11",
    level="exploration",
    technique="runtime monitor: limit ledger (RFC 9000 §18.2/§4.1) over every frame exchanged by two real endpoints with independently drawn flow-control parameters; enumerated hostile over-limit frames against one endpoint",
    level_text="Sender leg: the two-endpoint harness of C01 with the six initial flow-control parameters of each side drawn independently from {0,1,100,1000,65536,2^20}. A ledger written from the RFC "
    "(bidi_local / bidi_remote / uni chosen by who opened the stream) is updated by every MAX_DATA / MAX_STREAM_DATA at the moment it is delivered and checks every captured STREAM frame against the "
    "receiver's limit in force, the sum of new bytes (extension of the per-stream high-water mark) against MAX_DATA, the send controller's remaining credit after every assembled packet against "
    "limit - new bytes (retransmissions free, unused credit returned, nothing uncharged), and that originated MAX_DATA / MAX_STREAM_DATA values never decrease. "
    "Receiver leg: 2 roles x 3 stream kinds x limits {0,1,100,1000,65536} x excess {1,2,1000,2^32,2^60} x {STREAM, STREAM+FIN, RESET_STREAM} x {first frame, after legal data, after a read moved the window} x 2 stream indices, "
    "and connection-level analogues, through recv_data / recv_stream_control + ArcRecvController: outcome must be FLOW_CONTROL_ERROR. Whole-stack leg (l2-inject): 8 frames (STREAM beyond the stream limit at the client and at the server, one frame within its stream limit but beyond the connection limit, RESET_STREAM with a final size beyond the limit, STREAM exactly at the limit, maximal MAX_DATA / MAX_STREAM_DATA) are injected through hook H3 into the 1-RTT packets of an honest peer of a real dquic connection; the victim must close with FLOW_CONTROL_ERROR, respectively keep the connection open for the legal ones.",
    level_note="Trusted: the ledger (about 150 lines), the channel model of C01. Two of three histories use unequal uni / bidi-remote values; they end at the first finding.",
    design_ref="DESIGN.md §3 C11",
    legs=[dict(name="flow", crate="l1rec", sub="c11", shards={Q: 16, T: 16}, budget={Q: 2500, T: 100000}, timeout=1800),
          dict(name="l2-inject", crate="l2", sub="c04", args=["--prop", "C11"], shards={Q: 2, T: 2}, timeout=900)],
    floors={Q: {
            "probes_delivered": 8,
"ledger_stream_frames_checked": 300_000, "ledger_credit_probes": 1_000_000, "ledger_credit_probes_while_blocked": 100_000, "ledger_frames_exactly_at_stream_limit": 5_000,
                "ledger_frames_exactly_at_conn_limit": 50_000, "ledger_max_data_delivered": 50_000, "ledger_max_stream_data_delivered": 5_000, "ledger_advertisements_checked": 100_000,
                "ledger_retransmitted_bytes_free": 1_000_000, "hostile_stream_level_scenarios": 2000, "hostile_conn_level_scenarios": 400, "sets.stream_limit_kinds_checked": 3, "distinct": 10_000}},
    assumptions=["the send controller's credit is observed through the public credit() API (a probe takes and returns the whole remaining credit, as every packet assembly does)",
                 "over-limit input is judged at the stream layer + connection receive controller, i.e. after frame decoding"],
)
