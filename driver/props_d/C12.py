from props import prop, Q, T

prop(
    "C12",
    level="exploration",
    technique="runtime monitor: RFC outcome table for hostile stream frames against one real endpoint (roles x stream counts x both concurrency strategies), implicit-open model, stream-count ledger over two honest endpoints",
    level_text="Hostile leg: for both roles, initial stream counts {0,1,2,10,100} and both strategies of qbase/src/sid/handy.rs, peer STREAM / RESET_STREAM / STREAM_DATA_BLOCKED / STOP_SENDING / "
    "MAX_STREAM_DATA frames on stream index max-1, max, max+1, max+1000, 2^60-1 (before and after the strategy raised the limit) must be accepted below the advertised maximum and answered with "
    "STREAM_LIMIT_ERROR from it on; frames on a stream of the wrong direction with STREAM_STATE_ERROR; data beyond / FIN different from / RESET different from a known final size and final sizes below "
    "received data with FINAL_SIZE_ERROR (with legal controls). Implicit open: random legal frame sequences with arbitrary indices, accept must yield exactly prev..=k, once, in order. "
    "Local opens: ids in order and below the granted count, blocked otherwise, lower/equal MAX_STREAMS ignored. Originated MAX_STREAMS never decrease under any STREAMS_BLOCKED sequence. "
    "Honest leg: the two-endpoint harness of C01 with stream counts {0,1,2,10,100}, open-heavy histories: opened ids < granted-at-that-moment (MAX_STREAMS applied at delivery), in order; accepted streams "
    "in index order and, at the end, exactly up to the highest index any accepted frame referred to. Whole-stack leg (l2-inject): 20 frames injected through hook H3 into the 1-RTT packets of an honest peer of a real dquic connection (stream index far beyond / first beyond / exactly last allowed, STREAM / RESET_STREAM on the victim's send-only stream, STOP_SENDING / MAX_STREAM_DATA on receive-only or never-opened local streams, data beyond a known final size, a second FIN at another offset, RESET_STREAM below received data, MAX_STREAMS / STREAMS_BLOCKED above 2^60, at client and at server): the victim must close with STREAM_LIMIT_ERROR / STREAM_STATE_ERROR / FINAL_SIZE_ERROR, respectively stay open for the legal one.",
    level_note="Known finding C12.limit.accept-index-equals-max is pinned by the repository's own unit test. FINAL_SIZE checks are demanded while the receiver still holds the stream (Recv / SizeKnown), "
    "not after it was fully received and released (RFC 9000 §4.5: not mandatory for closed streams). Frames for a local stream that was never opened are only counted (not in the property statement).",
    design_ref="DESIGN.md §3 C12",
    legs=[dict(name="streams", crate="l1rec", sub="c12", shards={Q: 16, T: 16}, budget={Q: 1500, T: 60000}, timeout=1800),
          dict(name="l2-inject", crate="l2", sub="c04", args=["--prop", "C12"], shards={Q: 4, T: 4}, timeout=900)],
    floors={Q: {
            "probes_delivered": 20,
"hostile_refused_StreamLimit": 900, "hostile_refused_StreamState": 30, "hostile_refused_FinalSize": 80, "legal_frames_accepted": 300, "implicit_open_histories_exact": 5000,
                "local_open_histories_conform": 60, "max_streams_originated_checked": 40, "ledger_opens_checked": 100_000, "open_blocked": 50_000, "ledger_max_streams_delivered": 50_000,
                "accepts": 100_000, "distinct": 10_000}},
    assumptions=["hostile frames are injected after decoding, through the same dispatch the data space uses (recv_data / recv_stream_control + receive controller)"],
)
