from props import prop, Q, T

prop(
    "C17",
    engine="L2 whole-stack simulator",
    level="fault_enumeration",
    technique="runtime monitoring of real client+server under virtual time: ~22 pending application operations per scenario, termination triggered at chosen life-cycle points, every operation's resolution time and error recorded and judged; qlog state-sequence monitor",
    level_text="Each scenario puts window-blocked write/flush/shutdown, read, limit-blocked open_bi/open_uni, accept_bi/accept_uni, datagram recv, handshaked() and two terminated() callers "
    "in flight on BOTH endpoints, then applies one of {local close, peer close, both close, protocol error injected into the peer's 1-RTT packets (hook H3), permanent black-out, idleness} "
    "before / during / after the handshake. Oracle: every operation pending at the trigger and every operation started afterwards resolves with the side's terminating error kind within a "
    "virtual bound (2.5 s for closes, idle timeout + 4 s for black-out/idle); success after termination is a violation; all terminated() callers see the same error; closes give Application, "
    "the injected MAX_STREAMS(2^61) gives FrameEncoding; idle termination is not earlier than last-received + negotiated idle timeout and never happens when both sides disabled it; the qlog state "
    "sequence (attempted, handshake_confirmed, closing, draining, closed) only moves forward and no STREAM/DATAGRAM frame is sent after closing.",
    level_note="Bounds are virtual-time bounds; the simulated network replaces sockets. Operation kinds whose io::Error does not wrap the connection error are only checked for 'failed', not for the kind.",
    design_ref="DESIGN.md §3 C17",
    legs=[dict(name="sim", crate="l2", sub="c17", shards={Q: 16, T: 16}, budget={Q: 40, T: 400}, timeout={Q: 900, T: 7200})],
    floors={Q: {
            "pending_reads_with_known_final_size_and_gap_resolved": 200,"pending_ops_resolved_with_error": 800, "later_ops_failed_at_once": 400, "terminated_observed": 100, "sets.op_kinds_resolved": 40, "idle_not_before_checks": 10, "state_updates_seen": 300}},
    assumptions=["virtual time drives every timer", "hook H3 only appends frame bytes to a packet the honest endpoint was sending anyway"],
)
