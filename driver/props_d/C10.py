from props import prop, Q, T

prop(
    "C10",
    level="exploration",
    technique="runtime monitor: real ArcRcvdJournal vs the set of accepted numbers, real ArcSentJournal vs a map packet number -> "
    "recorded frames + status, under tokio paused time, checked at every call",
    level_text="Receive leg: generated arrival orders (in order, gaps, reordering, duplicates, late numbers, forged packets that are "
    "decoded but never registered, windows up to 5000) drive decode_pn / on_rcvd_pn exactly as the packet parsers do (ACK frames "
    "of the packet are processed between the two calls); every gen_ack_frame_util(pn, largest, t, capacity) result is enumerated "
    "with AckFrame::iter (cross-checked against the field arithmetic) and must satisfy: subset of the registered numbers, maximum = "
    "requested largest, encoding_size <= capacity, no hole above the lowest acknowledged number, complete whenever 16 spare bytes "
    "beyond the next omitted range were available, Err only when even the minimal frame does not fit; capacities are drawn around the "
    "minimal and the complete size and from 0..1500; decode_pn must refuse every registered number. A number stops being 'tracked' "
    "only by the forgetting rule the property allows (prefix of never-received numbers or numbers contained in an ACK frame whose "
    "carrying packet the peer acknowledged, non-eliciting or older than 3 PTO). Send leg: packets with 0/1/many recorded frames, "
    "trivial packets (both build paths), abandoned empty guards, then ack / loss / fast-retransmit / time steps in arbitrary order "
    "through rotate() + update_largest + on_packet_acked per acknowledged number / may_loss_packet per number: on_packet_acked "
    "yields exactly the recorded multiset the first time and nothing afterwards, may_loss_packet the multiset while unacknowledged, "
    "numbers without recorded frames yield nothing, fast_retransmit exactly the in-flight packets below the largest acknowledged whose "
    "retransmit time passed; a packet declared lost whose expiry time passed may be forgotten (then it must stay forgotten). Whole-stack leg (l2): the clause \"frames of packets declared lost are reported for retransmission\" also depends on how qconnection wires each space's loss feedback to its journal; bounded-fault scenarios of the C02 engine are run and, whenever one stalls, every CRYPTO / STREAM range that an endpoint's own qlog declares lost must appear again in a later packet of the same space (provided the endpoint sent at least ten more packets).",
    level_note="Trusted: the set/map models, ack-frame construction/enumeration helpers (cross-checked against AckFrame::iter), tokio's "
    "paused clock. update_largest accepting largest == next unsent number is property C04's clause and not exercised here (ACKs name "
    "sent numbers only). A diagnostic mirror of the journal's own (laxer) forgetting rule classifies the one known divergence "
    "(C10.ack-incomplete:forgotten-after-truncated-ack) and re-synchronises the model after it so the rest of the history stays checked. "
    "fast_retransmit has no production caller; it is driven per its documented contract in 3 of 4 history styles.",
    design_ref="DESIGN.md §3 C10",
    legs=[dict(name="journals", crate="l1rec", sub="c10", shards={Q: 16, T: 16}, budget={Q: 1200, T: 50000}, timeout=3600),
          dict(name="l2", crate="l2", sub="c10", shards={Q: 8, T: 16}, budget={Q: 6, T: 100}, timeout={Q: 900, T: 7200}),
          dict(name="miri", kind="miri", crate="l1rec", sub="c10", tiers=(T,), args=["--interp", "1"], budget={T: 4}, timeout=3600, mandatory=False)],
    floors={
        Q: {
            "bounded_scenarios": 40,
            "ack_frames_requested": 100_000,
            "ack_frames_complete": 30_000,
            "ack_frames_truncated": 10_000,
            "ack_frames_refused": 3_000,
            "rcvd_duplicates_rejected": 20_000,
            "acks_of_our_acks": 10_000,
            "numbers_forgettable": 10_000,
            "sent_packets_with_frames": 100_000,
            "sent_trivial_packets": 10_000,
            "sent_frames_delivered": 100_000,
            "sent_repeated_acks": 10_000,
            "sent_ack_after_loss": 5_000,
            "sent_frames_reported_lost": 50_000,
            "sent_forgotten_after_expiry": 500,
            "sent_fast_retransmit_frames": 500,
            "distinct": 5_000,
        }
    },
    assumptions=[
        "decode_pn .. on_rcvd_pn of one packet are not interleaved with another packet of the same space (true on one parser task per space)",
        "the `largest` passed to gen_ack_frame_util is a registered number (congestion controller / journal need_ack both report received numbers)",
        "guards are used as qconnection's PacketWriter does: frames recorded only on packets that are then built",
    ],
)
