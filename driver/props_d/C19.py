from props import prop, Q, T

prop(
    "C19",
    level="exploration",
    technique="runtime monitor: real qdatagram::DatagramFlow (writer, try_load_data_into, recv_frame, reader) against a FIFO model; packet targets with "
    "swept remaining space; captured bytes decoded by the real FrameReader and piped into a real receiver that advertised the peer limit",
    level_text="L1 leg. For limits {0,1,2,3,63..66,100,1200,16383..16386,65535} on both sides: DatagramWriter::send/send_bytes refuses iff 1+|d| > peer "
    "max_datagram_frame_size (writer()/reader() refuse iff the side is disabled); DatagramFlow::try_load_data_into into custom packet targets (bounded BufMut + "
    "RecordFrame) whose remaining space sweeps every value 0..|d|+12 (exhaustively for sizes 0,1,2,61..66 and limit-4..limit+1, randomly otherwise), single and "
    "repeated loads per packet: a refusal writes nothing and keeps the queue; a success writes [PADDING]* + exactly one DATAGRAM frame whose payload is the head of "
    "the queue; a datagram that fits an empty packet (space >= 1+|d|) is loaded; the no-length form ends the packet; recorded frames = written frames; the packet "
    "payload decodes (real FrameReader) to exactly the loaded datagrams in send order; every emitted frame is <= the peer limit and is accepted by a real "
    "DatagramFlow that advertised that limit, whose DatagramReader returns the payloads unchanged, unmerged, in order. Incoming: crafted frames in both forms around "
    "the local limit: frame size (type + length field + payload) > local max <=> ProtocolViolation, otherwise readable in order. Whole-stack injection (l2-inject): a DATAGRAM frame injected through hook H3 into a connection whose victim advertised max_datagram_frame_size 0 must close it with PROTOCOL_VIOLATION.",
    level_note="The clause 'an accepted datagram on an open, uncongested connection is actually put on the wire' CANNOT be seen by this L1 leg: it drives "
    "try_load_data_into itself, whereas in the connection nothing calls it (qconnection/src/path/burst.rs Components::packages has `// TODO: datagram`). That clause, "
    "loss schedules and the ProtocolViolation close on the wire belong to the whole-stack (L2) leg. Trusted: the 30-line packet target and the FIFO model.",
    design_ref="DESIGN.md §3 C19",
    legs=[dict(name="datagram", crate="l1rec", sub="c19", shards={Q: 8, T: 16}, budget={Q: 8000, T: 150000}, timeout=1500),
          dict(name="l2", crate="l2", sub="c19", shards={Q: 8, T: 16}, budget={Q: 12, T: 150}, timeout={Q: 900, T: 7200}),
          dict(name="l2-inject", crate="l2", sub="c04", args=["--prop", "C19"], shards={Q: 1, T: 1}, timeout=900),
          dict(name="asan", kind="asan", crate="l2", sub="c19", tiers=(T,), budget={T: 12}, timeout=5400, mandatory=False)],
    floors={
        Q: {
            "probes_delivered": 1,
            "scenarios_with_different_limits_per_side": 10,
            "fitting_datagrams_accepted": 100,

            "sweep_cases": 5000,
            "sends_accepted": 200_000,
            "sends_refused": 50_000,
            "loads_ok": 150_000,
            "loads_refused_no_room": 80_000,
            "frames_with_length": 100_000,
            "frames_without_length": 30_000,
            "frames_padding_first": 4_000,
            "packets_with_several_datagrams": 10_000,
            "frames_piped_through_real_receiver": 100_000,
            "incoming_accepted": 50_000,
            "incoming_protocol_violation": 20_000,
            "reads_ok": 30_000,
            "distinct": 20_000,
        }
    },
    assumptions=[
        "frame sizes per RFC 9221 §3/§4: type byte + optional length varint + payload; the no-length form is only legal as the last frame of a packet",
        "after a ProtocolViolation from recv_frame the connection is closed by the caller; the monitor stops feeding that receiver",
    ],
)
