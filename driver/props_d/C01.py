from props import prop, Q, T

prop(
    "C01",
    level="exploration",
    technique="runtime monitor: two real DataStreams endpoints over a seeded lossy/reordering/duplicating channel with ack/loss feedback, self-identifying PRF content, waker-driven bounded-liveness pump",
    level_text="Two real qrecovery DataStreams (client and server, real connection flow controllers, real Reader/Writer through AsyncRead/AsyncWrite/Sink/Stream) "
    "exchange PRF content: byte i of flow s is prf(seed,s,i). Frames are captured from a BufMut+RecordFrame packet target with capacities 26..65535, carried as encoded bytes, "
    "dropped / delayed / duplicated / reordered per an explicit op list, decoded with FrameReader and dispatched like qconnection does; ack and loss verdicts follow the production "
    "sent-journal discipline (spurious loss, repeated loss, ack after loss, late ack, range-level double ack and loss-after-ack through retransmissions); lost control frames are re-queued. "
    "Every byte a reader returns is compared with the PRF at the next offset; EOF only at the writer's final size; reset outcomes only with the code the harness used; recorded frames must equal "
    "the frames decoded from the packet bytes. After the op list the network turns clean and a strictly waker-driven application (re-polls only after a wake-up) must finish every stream "
    "(EOF, nread == written, shutdown() = Ok) within K = 4*(flows+outstanding frames)+16 rounds plus a flow-control allowance; a fixpoint with unfinished streams is reported as stuck.",
    level_note="Trusted: the harness channel/journal model (truthful acks, loss* ack? per packet), the PRF, the explicit-op runner. Histories cut short by another property's defect "
    "(C11 uni window, C12 limit decrease) are counted as foreign_root_cause_* and reported by that property's check. Uni and bidi-remote stream windows are equal here (the unequal case is C11's).",
    design_ref="DESIGN.md §3 C01",
    legs=[dict(name="e2e", crate="l1rec", sub="c01", shards={Q: 16, T: 16}, budget={Q: 2500, T: 100000}, timeout=1800),
          dict(name="l2", crate="l2", sub="c01", shards={Q: 8, T: 16}, budget={Q: 5, T: 200}, timeout={Q: 900, T: 7200})],
    floors={Q: {"bytes_read_and_verified": 100_000_000, "retransmitted_stream_frames": 20_000, "ack_after_loss": 5_000, "pkts_dropped": 5_000, "pkts_duplicated": 3_000,
                "reordered_deliveries": 5_000, "resets_seen_by_reader": 500, "cases_completed_all_streams": 30_000, "distinct": 20_000, "sets.packet_capacities": 15}},
    assumptions=["acknowledgements are truthful: a packet is acked only after a copy of it was delivered (the receive side of ack generation is C10's subject)",
                 "'eventually' is decided as 'within K pump rounds after the faults stop' or refuted by a fixpoint",
                 "single-threaded interleaving at operation granularity (every stream operation is one mutex-protected call in the library)"],
)
