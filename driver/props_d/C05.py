from props import prop, Q, T

prop(
    "C05",
    level="exploration",
    technique="runtime monitor: values drawn from boundary-enumerating generators are written by the real encoders, read back by the real "
    "decoders in every packet type and dumped through the real Package impls into a real PacketWriter of exactly the declared size; thorough tier "
    "repeats a slice under AddressSanitizer",
    level_text="One set of generators (codec_gen.rs) is enumerated exhaustively over its boundary choices and sampled at random: all 26 frame "
    "kinds with every flag combination (STREAM off/len/fin, ACK 0/1/2/63/64/n ranges with/without ECN, DATAGRAM len flag, both "
    "CONNECTION_CLOSE layers x every error kind x every frame type incl. the 4-byte extension types, both MAX_STREAMS/STREAMS_BLOCKED "
    "directions, v4/v6 address frames x every NAT type), every varint field at {0,63,64,16383,16384,2^30-1,2^30,2^62-1} (2^60-1, 2^60 for "
    "stream counts), byte fields of {0,1,63,64,65,16383,16384} bytes (token, reason, crypto/stream/datagram data); all six header kinds with "
    "CID lengths 0..20 and those token lengths; packet numbers of every width; ConnectionId, socket/endpoint/link addresses, reset token, "
    "preferred address, varints in minimal and forced widths, frame types, stream ids, error codes, parameter ids; transport-parameter sets "
    "of both roles where one parameter takes every boundary value inside its RFC bounds and the others are present/absent at random. "
    "Oracle per value: written == encoding_size() (+ data) <= max_encoding_size(); decode(encode(v)) == v with the same frame type and "
    "consumed == written in every packet type RFC 9000 Table 3 permits, also when other bytes follow, and WrongType in the others; "
    "Package::dump into a PacketWriter with exactly encoding_size() bytes left succeeds with identical bytes, with one byte less returns "
    "Signals::CONGESTION and writes nothing, never panics (directly and via ReliableFrame); the production sizing sequences of CRYPTO "
    "(estimate_max_capacity) and STREAM (estimate_max_capacity, encoding_strategy, pre-padding, trailing padding) for capacities 0..90, "
    "around 128/16384 and MTU sizes never overflow and read back exactly; frame sequences through FrameReader; packets assembled by "
    "PacketWriter (all four data packet types, every pn width) are framed back by PacketReader + FrameReader into the same header, packet "
    "number and frames; parameter blobs are checked by an independent parser and by parse_from_bytes / try_from_remembered_bytes.",
    level_note="Trusted: the generators, the independent Table 3 (codec_ref::permitted) and parameter framing (codec_ref::ref_params), and "
    "transparent test keys for PacketWriter (no encryption, 16-byte tag). For the data-bearing frames Package::dump admits by header size only "
    "(the data is sized beforehand by estimate_max_capacity/encoding_strategy): the refusal clause is checked at header_size-1 and the fit "
    "clause through the production sizing sequences. Mixed-family EndpointAddr::Agent and ErrorFrameType::Ext are not generated (the code "
    "never builds them). The datagram writer's sizing (qdatagram) belongs to C19, packet-number window decoding to C07.",
    design_ref="DESIGN.md §3 C05",
    legs=[
        dict(name="codec", crate="l1base", sub="c05", shards={Q: 8, T: 16}, budget={Q: 12000, T: 400000}, timeout=2400),
        dict(name="codec-relverif", crate="l1base", sub="c05", profile="relverif", tiers=(T,), mandatory=False, shards={T: 8}, budget={T: 100000}, timeout=2400),
        dict(name="asan", kind="asan", crate="l1base", sub="c05", tiers=(T,), budget={T: 3000}, timeout=5400, mandatory=False),
    ],
    floors={
        Q: {"enumerated.frame": 25_000, "enumerated.header": 30_000, "enumerated.params": 3000, "enumerated.prim": 500, "decodes_compared": 300_000,
            "wrong_packet_type_checks": 30_000, "package_fit_checks": 50_000, "package_refuse_checks": 50_000, "fit_cases.stream": 20_000,
            "fit_cases.crypto": 1500, "random.packet": 10_000, "random.sequence": 10_000, "distinct": 80_000},
    },
    assumptions=[
        "values are those the public constructors can build and the RFC allows (offset+length <= 2^62-1, stream counts <= 2^60, reason phrases valid UTF-8, durations whole milliseconds)",
        "single packets of at most 16383 payload bytes (the writer's 2-byte Length field)",
    ],
)
