from props import prop, Q, T

prop(
    "C18",
    level="exploration",
    technique="runtime monitor: real Parameters<Role>::parse_from_bytes / Parameters::{recv_remote_params, initial_scid_from_peer_need_equal, "
    "negotiated_max_idle_timeout} / is_0rtt_accepted against an RFC 9000 §7.4/§18.2 MUST-reject table computed from the blob bytes by an independent reader",
    level_text="One-directional table oracle: for every generated transport-parameter blob (both sender roles; all single and double omissions of the "
    "full id set; every integer id at and beyond every bound in every varint width; body lengths 0..44 for every id; role-swapped ids; unknown/grease ids; "
    "every strict prefix of a full blob; random mixes with duplicates and several defects) acceptance by the real parser implies the blob is not in the "
    "MUST-reject set (forbidden id for the role, max_udp_payload_size<1200, ack_delay_exponent>20, max_ack_delay>=2^14, active_connection_id_limit<2, "
    "initial_max_streams_*>2^60, missing initial_source_connection_id / original_destination_connection_id, length inconsistent with type, truncated TLV, "
    "zero-length CID in preferred_address); a rejection must carry ErrorKind::TransportParameter; blobs in the unambiguously legal region (library handy "
    "sets written by the library's encoder, generated legal sets, unknown ids, values exactly at the bounds) must be accepted with exactly the blob's values. "
    "Binding: both arrival orders of (parsed peer parameters, first-packet SCID) x equal / one-bit / last-byte / prefix / empty / zero-extended / random CIDs for "
    "initial_source_connection_id and (client) original_destination_connection_id, through the bare Parameters and through ArcParameters: never ready nor woken "
    "before both arrived, ready+woken iff they match, mismatch => TransportParameter. negotiated_max_idle_timeout = min non-zero over a 9x9 value grid; "
    "is_0rtt_accepted <=> all eight remembered limits <= new ones (pair table per id incl. absent = default, plus random sets).",
    level_note="L1 only: the real TLS extension plumbing (qconnection/src/tls.rs) and 'no stream usable before readiness' are seen only by the whole-stack leg "
    "(coordinator's L2).  Not judged in either direction: duplicate ids (SHOULD), max_udp_payload_size > 65527 (library is stricter than the RFC), "
    "retry_source_connection_id binding (the client never processes Retry; retry_scid_from_server_need_equal has no production caller).  Blobs on which the "
    "parser panics are skipped and counted (C03 owns decoder panics; locations listed in evidence notes).  Trusted: the 120-line table/TLV reader in c18.rs.",
    design_ref="DESIGN.md §3 C18",
    legs=[dict(name="params", crate="l1base", sub="c18", shards={Q: 8, T: 16}, budget={Q: 60000, T: 400000}, timeout=1500)],
    floors={
        Q: {
            "parse_blobs": 200_000,
            "parse_must_reject_rejected": 40_000,
            "parse_must_accept_accepted": 100_000,
            "omission_cases": 300,
            "bound_value_cases": 1500,
            "length_cases": 1500,
            "truncation_cases": 200,
            "role_swapped_cases": 5,
            "binding_ready_observed": 800,
            "binding_mismatch_errors_observed": 2000,
            "binding_remote_ready_future_completed": 200,
            "idle_timeout_checks": 800,
            "zero_rtt_accepted": 1000,
            "zero_rtt_refused": 5000,
            "sets.must_reject_classes": 30,
            "sets.idle_classes": 6,
            "distinct": 100_000,
        }
    },
    assumptions=[
        "RFC 9000 §7.4/§18.2, RFC 9221 §3, RFC 9287 §3 as transcribed in the table of c18.rs; client_name (0xffee) is the library's own client-only extension",
        "recv_remote_params and initial_scid_from_peer_need_equal are each called at most once per connection (both assert it), as tls.rs / space/initial.rs do",
        "after an Err from either call the connection is failed by the caller (ArcParameters::on_conn_error); the monitor stops the case there",
    ],
)
