from props import prop, Q, T

prop(
    "C03",
    level="exploration",
    technique="runtime monitor: the real PacketReader, FrameReader, transport-parameter parsers and nom primitives of qbase are fed "
    "hostile bytes; every call runs under catch_unwind, iterators are stepped by hand with a step budget, and framing, outcome class and "
    "error kind are compared with independent reference parsers written from RFC 9000; thorough tier repeats a slice of the same workload under "
    "AddressSanitizer and under the Miri interpreter (out-of-bounds / dangling / unaligned access)",
    level_text="Inputs: (a) random byte strings of 0..1500 bytes whose first bytes are biased to every packet form/type/version, every frame "
    "type (incl. the 4-byte extension types) and known parameter ids; (b) structure-aware mutants of valid encodings produced by the C05 "
    "generators (coalesced datagrams of all six packet kinds, payloads of 1-4 frames of all 26 kinds, parameter sets of both roles): "
    "truncation at every length, every single bit flip of short inputs, every boundary varint {0,63,64,16383,16384,2^30-1,2^30,2^62-1} "
    "(minimal and non-minimal encodings) written over / in place at every position (which inflates every length field), prefix bytes "
    "0x00/0x40/0x80/0xc0/0xff/20/21 at every position, splices, appends and stacked mutations; (c) a hand-seeded corpus of ~130 boundary "
    "inputs (CID length 21/255, payloads of 0/1/19/20/21 bytes, lengths of 2^62-1, negative ACK ranges, nested length overflows). "
    "PacketReader runs with every dcid_len 0..20, FrameReader with all four packet types (both spin bits), the parameter parsers are "
    "ClientParameters/ServerParameters::parse_from_bytes and ServerParameters::try_from_remembered_bytes. Oracle: no panic; each Ok step "
    "consumes >= 1 and <= remaining bytes within len+2 steps; packets, frames and parameter values are framed exactly as the reference "
    "parsers frame them (kind, length, payload offset, connection ids, token, frame type, raw field values); Ok only where the RFC leaves "
    "room for Ok, Err only where it leaves room for Err; frame errors convert to FRAME_ENCODING_ERROR or, for a frame in a packet type "
    "that does not permit it, PROTOCOL_VIOLATION (RFC 9000 §12.4), parameter errors to TRANSPORT_PARAMETER_ERROR; after a datagram-level "
    "error the reader is exhausted; every decoded frame re-encodes and decodes to itself. Quick ~4*10^6 inputs, thorough ~10^8 plus the "
    "same workload on a build without debug assertions and overflow checks.",
    level_note="Trusted: the reference parsers (codec_ref.rs, 400 lines, RFC 9000 §16-§19, RFC 9221 §4, the extension frames' own field lists) "
    "and the table of semantic rules for which either outcome is accepted (negative ACK ranges, offset overflow, limits above 2^60, "
    "unknown CONNECTION_CLOSE codes, NAT type, duplicate/out-of-bounds/missing parameters: these are enforced by handlers and belong to "
    "C04/C12/C18). 'Never reads outside the buffer' is observed as panic-freedom of safe Rust plus returned slices being sub-slices of the "
    "input; the qbase decoders contain no unsafe code. The STUN/forward-header parsers of the receive loop (qtraversal) are not linked by "
    "l1base and are NOT covered.",
    design_ref="DESIGN.md §3 C03",
    legs=[
        dict(name="decoders", crate="l1base", sub="c03", shards={Q: 16, T: 16}, budget={Q: 100, T: 2000}, timeout=2400),
        dict(name="decoders-relverif", crate="l1base", sub="c03", profile="relverif", tiers=(T,), mandatory=False, shards={T: 16}, budget={T: 1000}, timeout=2400),
        dict(name="asan", kind="asan", crate="l1base", sub="c03", tiers=(T,), budget={T: 20}, timeout=5400, mandatory=False),
        dict(name="miri", kind="miri", crate="l1base", sub="c03", tiers=(T,), args=["--random", "200"], budget={T: 2}, timeout=5400, mandatory=False),
    ],
    floors={
        Q: {"inputs.packet": 400_000, "inputs.frame": 400_000, "inputs.params": 300_000, "inputs.prim": 50_000, "origin.corpus": 1000,
            "ok_steps.frame": 500_000, "frames_decoded.stream": 5000, "frames_decoded.new_connection_id": 5000, "packets_decoded.initial": 50_000,
            "packets_decoded.vn": 5000, "params_accepted.client": 10_000, "params_accepted.server": 10_000, "sets.error_variants": 10, "distinct": 300_000},
    },
    assumptions=[
        "PacketReader is only asked for dcid_len 0..20 (the router fixes it; production uses 8)",
        "FrameReader's caller stops at the first error (qconnection/src/space.rs read_plain_packet), so bytes after an error are not decoded",
    ],
)
