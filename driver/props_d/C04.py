from props import prop, Q, T

prop(
    "C04",
    level="exploration",
    technique="runtime monitor: every hostile frame/packet-number probe is handled by the real journals, congestion controller, "
    "connection-id tables, DataStreams, flow controller and crypto streams in its own rlimited process; process CPU time, bytes "
    "counted by a counting allocator and the returned ErrorKind are compared with a budget and an RFC table",
    level_text="A table of 46 handler+field families (ACK largest/first range/gap/range length/delay/ECN/range iteration, packet-number "
    "jumps and duplicates, NEW_CONNECTION_ID sequence/gap/retire-prior-to, RETIRE_CONNECTION_ID, active_connection_id_limit, stream "
    "index/direction/unopened/offset/final size for STREAM, RESET_STREAM, STOP_SENDING, MAX_STREAM_DATA, STREAM_DATA_BLOCKED, MAX_DATA, "
    "MAX_STREAMS, STREAMS_BLOCKED, DATA_BLOCKED, CRYPTO offset) is swept over {0,1,2,63,64,2^14+-1,2^30+-1,2^31,2^40,2^62-1} and the "
    "values below/at/just above/far above the state, after legitimate histories of 0/1/10/1000 packets in each direction (plus random "
    "histories and log-uniform values), in the 1-RTT and the Initial space. Each probe is the wire bytes of the frames, parsed by the "
    "real FrameReader and dispatched in the order of qconnection/src/space/{initial,data}.rs + space.rs, in a grandchild process with "
    "RLIMIT_AS 2 GiB / RLIMIT_CPU 20 s. Cost oracle: peak live allocation <= 64 KiB + 1 KiB*(b+n), CPU <= 300 ms + 20 us*(b+n) "
    "(b = input bytes, n = packets/cids/streams held + advertised limits); values are first tried at 10^3/10^5/10^7 and the slope is "
    "recorded, larger values are only tried when that curve is flat. Error oracle: the outcome (accepted / dropped / ErrorKind) must "
    "be in the set RFC 9000 allows for that shape.",
    level_note="Trusted: the hand-written varint/frame encoders, the 150-line dispatcher that mirrors qconnection's frame dispatch "
    "(qconnection itself is not linked at L1; the L2 injection leg covers the real dispatcher), the table of allowed outcomes, "
    "getrusage and the counting allocator. Costs below 1000x of normal are not reported (budget constants).",
    design_ref="DESIGN.md §3 C04",
    legs=[
        dict(name="probes", crate="l1rec", sub="c04", shards={Q: 16, T: 16}, budget={Q: 2, T: 40}, timeout=2400),
        dict(name="probes-release", crate="l1rec", sub="c04", profile="relverif", tiers=(T,), shards={T: 16}, budget={T: 10}, timeout=2400),
        # whole-stack confirmation: hostile frames injected through hook H3 into an honest server's 1-RTT packets,
        # processed by the client's real qconnection dispatch (space.rs); error kind + process-wide alloc/CPU budget
        dict(name="l2-inject", crate="l2", sub="c04", shards={Q: 4, T: 4}, timeout=900),
        dict(name="asan", kind="asan", crate="l2", sub="c04", tiers=(T,), timeout=5400, mandatory=False),
    ],
    floors={
        Q: {"probes_delivered": 12, "probes_with_prescribed_error": 10, "probes": 1500, "distinct": 1000, "ramps_fitted": 70, "outcome.error": 600, "outcome.accepted": 600, "sets.clauses": 60},
        T: {"probes_delivered": 12, "probes_with_prescribed_error": 10, "probes": 15000, "distinct": 6000, "ramps_fitted": 500, "outcome.error": 5000, "outcome.accepted": 5000, "sets.clauses": 60},
    },
    assumptions=[
        "the victim is a server with one path; the hostile peer owns valid keys (frames are syntactically valid and decrypt)",
        "the frame dispatch order of qconnection (cc.on_ack_rcvd, rcvd journal on_rcvd_ack, then update_largest and per-pn on_packet_acked) is mirrored, not linked, at L1",
        "advertised limits (100+100 streams, 4+4 connection ids) count as state the endpoint already holds",
    ],
)
