from props import prop, Q, T

prop(
    "C15",
    engine="L2 whole-stack simulator",
    level="fault_enumeration",
    technique="runtime wire monitor: running inequality sent <= 3*received per unvalidated address, evaluated inside the simulated network after every server send",
    level_text="Real server and client over SimNet with hostile-client schedules (client mute after n datagrams, replies black-holed, handshake-bearing "
    "datagrams lost, heavy loss) x MTU x latency. The network itself keeps cumulative bytes delivered from the client address and bytes the server sent to it and "
    "checks sent <= 3*received after EVERY server datagram until an intact client datagram carrying a Handshake packet (or an Initial with a token) has been delivered.",
    level_note="Validation is detected on the wire from unprotected long-header fields (type bits, Length), which can only delay the monitor's notion of 'validated', never hasten it. "
    "The resumption clause (sending resumes when more is received) is observed as handshake completion in the heavy-loss classes, not timed.",
    design_ref="DESIGN.md §3 C15",
    legs=[dict(name="sim", crate="l2", sub="c15", shards={Q: 16, T: 16}, budget={Q: 12, T: 200}, timeout={Q: 900, T: 7200}),
          dict(name="asan", kind="asan", crate="l2", sub="c15", tiers=(T,), budget={T: 8}, timeout=5400, mandatory=False)],
    floors={Q: {"server_sends_checked_before_validation": 300, "scenarios_never_validated": 15, "scenarios_reaching_validation": 15, "sets.classes": 5, "resumption_scenarios": 8}},
    assumptions=["bytes are counted per UDP datagram at the simulated wire"],
)
