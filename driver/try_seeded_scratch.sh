#!/bin/bash
# usage: try_seeded_scratch.sh <name> <patch.diff> <PROP> [<PROP>...]
# Like try_seeded.sh but against a scratch worktree + scratch harness copy (keeps /repo and /verif/target untouched);
# evidence files of these runs go to the scratch directory, never to /verif/evidence.
N=$1; P=$2; shift; shift
D=/root/scratch/$N
[ -d $D/repo ] || /verif/driver/mkscratch.sh $N >/dev/null
git -C $D/repo checkout -q -- . ; git -C $D/repo checkout -q --detach $(git -C /repo rev-parse HEAD)
rsync -a --exclude target /verif/harness/ $D/harness/
sed -i "s#\"/repo/#\"$D/repo/#g" $D/harness/Cargo.toml
sed -i "s#/verif/target#$D/target#" $D/harness/.cargo/config.toml
git -C $D/repo apply "$P" || { echo "patch does not apply"; exit 2; }
cd /verif
for prop in "$@"; do
  echo "=== $prop with $P"
  VERIF_EVIDENCE_DIR=$D/evidence VERIF_HARNESS_DIR=$D/harness VERIF_TARGET_DIR=$D/target ./check $prop 2>&1 | grep -E "^VIOLATION|^  signature|^\[C|^INCONCLUSIVE prop" | cut -c1-300 | head -10
  echo "rc=${PIPESTATUS[0]}"
done
git -C $D/repo checkout -q -- .
