#!/bin/bash
# usage: try_seeded.sh <patch.diff> <PROP> [<PROP>...]  — apply a seeded change to /repo, run the quick checks, revert.
P=$1; shift
cd /repo || exit 2
[ -z "$(git status --porcelain)" ] || { echo "/repo not clean"; exit 2; }
git apply "$P" || { echo "patch does not apply"; exit 2; }
cd /verif
for prop in "$@"; do
  echo "=== $prop with $(basename $(dirname $(dirname $P)))/$(basename $P)"
  ./check $prop 2>&1 | grep -E "^VIOLATION|^  signature|^\[C|^INCONCLUSIVE prop" | cut -c1-260 | head -12
  echo "rc=${PIPESTATUS[0]}"
done
git -C /repo checkout -- .
echo "reverted: $(git -C /repo status --porcelain | wc -l) dirty files"
