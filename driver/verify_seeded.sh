#!/bin/bash
# usage: verify_seeded.sh <ID>   — confirm in the scratch worktree /tmp/mut/<ID>/wt that the demo fails with the
# patch and passes without it, and that the touched crates' existing tests + the dquic echo tests pass with it.
ID=$1; WT=/tmp/mut/$ID/wt; OUT=/tmp/mut/$ID/out
cd $WT || exit 2
export CARGO_NET_OFFLINE=true
[ -n "$VERIFY_TARGET_DIR" ] && export CARGO_TARGET_DIR=$VERIFY_TARGET_DIR
demo=$(git status --porcelain -uall | grep '^??' | awk '{print $2}' | grep '/tests/.*\.rs$' | head -1)
crate=$(echo $demo | cut -d/ -f1); tname=$(basename $demo .rs)
touched=$(grep '^+++ b/' $OUT/patch.diff | sed 's#+++ b/##' | cut -d/ -f1 | sort -u | tr '\n' ' ')
echo "demo=$demo crate=$crate test=$tname touched=$touched"
git apply -R --check $OUT/patch.diff 2>/dev/null || { echo "patch not applied in worktree; applying"; git apply $OUT/patch.diff || exit 2; }
# a target dir shared between worktrees (VERIFY_TARGET_DIR) keys its fingerprints on mtimes: make every state change visible
touchp() { grep '^+++ b/' $OUT/patch.diff | sed 's#+++ b/##' | xargs -r touch; }
touchp
echo "--- with patch: demo (expect FAIL)"
cargo test -q -p $crate --offline -j 8 --test $tname 2>&1 | grep -E "^test result|^test .* (FAILED|ok)$" | head -8
echo "--- with patch: existing tests of touched crates (expect ok)"
for c in $touched; do cargo test -q -p $c --offline -j 8 --lib 2>&1 | grep -E "^test result" | head -2; done
cargo test -q -p dquic --offline -j 8 --test echo 2>&1 | grep -E "^test result" | head -2
git apply -R $OUT/patch.diff; touchp
echo "--- without patch: demo (expect ok)"
cargo test -q -p $crate --offline -j 8 --test $tname 2>&1 | grep -E "^test result|^test .* (FAILED|ok)$" | head -8
git apply $OUT/patch.diff; touchp
