"""External (sanitizer / interpreter) legs of a check: Miri and AddressSanitizer builds of the same
monitors.  They are auxiliary: a tool that cannot build or times out makes the leg *inconclusive*,
never a violation; an Undefined-Behaviour / sanitizer report is a violation with the tool's
report stored as the replay."""
import json, os, re, subprocess, time

NIGHTLY = "+nightly"


def _env(extra=None):
    e = dict(os.environ)
    e["CARGO_NET_OFFLINE"] = "true"
    e.pop("RUSTFLAGS", None)
    e.pop("CARGO_TARGET_DIR", None)
    if extra:
        e.update(extra)
    return e


def run_ext_leg(leg, pid, tier, seed, tmp, root, harness):
    kind = leg["kind"]
    name = leg["name"]
    out_json = os.path.join(tmp, f"{name}.json")
    argv = [leg["sub"], "--seed", str(seed), "--tier", "quick", "--shard", "0", "--shards", "1", "--out", out_json] + leg.get("args", [])
    budget = leg.get("budget", {}).get(tier)
    if budget is not None:
        argv += ["--budget", str(budget)]
    t0 = time.time()
    report = {"leg": name, "kind": kind}
    res = {"report": report, "frags": [], "inconclusive": [], "violations": []}
    if kind == "miri":
        cmd = ["cargo", NIGHTLY, "miri", "run", "-q", "-p", leg["crate"], "--"] + argv
        env = _env({"MIRIFLAGS": leg.get("miriflags", "-Zmiri-disable-isolation"), "CARGO_TARGET_DIR": os.path.join(root, "target-miri")})
    elif kind == "asan":
        cmd = ["cargo", NIGHTLY, "run", "-q", "-p", leg["crate"], "--target", "x86_64-unknown-linux-gnu", "--"] + argv
        env = _env({
            "RUSTFLAGS": "--cfg genmeta_gm_quic_verif -Zsanitizer=address -Cforce-frame-pointers=yes",
            "CARGO_TARGET_DIR": os.path.join(root, "target-asan"),
            "ASAN_OPTIONS": "detect_leaks=0:halt_on_error=1:abort_on_error=0",
        })
    elif kind == "tsan":
        # ThreadSanitizer needs an instrumented std (-Zbuild-std, built offline from rust-src); exit code 66 = report
        cmd = ["cargo", NIGHTLY, "run", "-q", "-Zbuild-std", "-p", leg["crate"], "--target", "x86_64-unknown-linux-gnu", "--"] + argv
        env = _env({
            "RUSTFLAGS": "--cfg genmeta_gm_quic_verif -Zsanitizer=thread",
            "CARGO_TARGET_DIR": os.path.join(root, "target-tsan"),
            "TSAN_OPTIONS": "halt_on_error=1:second_deadlock_stack=1",
        })
    else:
        res["inconclusive"].append(f"leg {name}: unknown kind {kind}")
        return res
    timeout = leg.get("timeout", 3600)
    try:
        r = subprocess.run(cmd, cwd=harness, env=env, stdout=subprocess.PIPE, stderr=subprocess.PIPE, text=True, timeout=timeout)
    except subprocess.TimeoutExpired:
        res["inconclusive"].append(f"leg {name}: {kind} run exceeded its {timeout}s watchdog")
        report["status"] = "timeout"
        return res
    report["wall_s"] = round(time.time() - t0, 1)
    err = r.stderr or ""
    ub = None
    if kind == "miri":
        m = re.search(r"error: (Undefined Behavior|unsupported operation|memory leaked|deadlock|the evaluated program (deadlocked|leaked))[^\n]*", err)
        if m and "unsupported operation" not in m.group(0):
            ub = m.group(0)
        elif m:
            res["inconclusive"].append(f"leg {name}: miri unsupported operation: {m.group(0)[:200]}")
    elif kind == "tsan":
        m = re.search(r"WARNING: ThreadSanitizer[^\n]*", err)
        if m:
            ub = m.group(0)
    else:
        m = re.search(r"ERROR: AddressSanitizer[^\n]*", err)
        if m:
            ub = m.group(0)
    if ub:
        where = re.findall(r"-->\s*(\S+)|#\d+ 0x[0-9a-f]+ in (\S+)", err)
        frame = next((a or b for a, b in where if any(t in (a or b) for t in ("/repo/", "qbase", "qrecovery", "qconnection", "qinterface", "qcongestion", "qdatagram"))), "")
        sig = f"{pid}.{kind}:{re.sub(r'[^A-Za-z0-9_.:/-]', '_', frame)[-60:] or 'report'}"
        rp = os.path.join(root, "replays", f"{pid}-{kind}-{seed}.json")
        os.makedirs(os.path.dirname(rp), exist_ok=True)
        json.dump({"property": pid, "signature": sig, "leg": name, "what": ub, "tool_report": err[-6000:], "cmd": " ".join(cmd)}, open(rp, "w"), indent=1)
        res["violations"].append((sig, f"{kind}: {ub}", rp, {"signature": sig, "what": ub, "leg": name}))
        report["status"] = "report"
        return res
    if r.returncode != 0 or not os.path.exists(out_json):
        res["inconclusive"].append(f"leg {name}: {kind} exited {r.returncode} without a report: {err[-300:]}")
        report["status"] = "error"
        return res
    frag = json.load(open(out_json))
    frag["_wall"] = time.time() - t0
    # keep the interpreter's observations separate from the native counters
    frag["counters"] = {f"{kind}_{k}": v for k, v in frag.get("counters", {}).items()}
    frag["counters"][f"{kind}_evaluations"] = frag.get("evaluations", 0)
    frag["distinct"] = []
    frag["sets"] = {}
    frag["samples"] = []
    frag["exhaustive"] = None
    frag["rule"] = ""
    res["frags"].append(frag)
    report["status"] = "clean"
    report["evaluations"] = frag.get("evaluations", 0)
    return res
