#!/bin/sh
# Run the repository's own test suite with the verification guard OFF (no RUSTFLAGS cfg).
cd /repo
unset RUSTFLAGS
export CARGO_NET_OFFLINE=true
if cargo nextest --version >/dev/null 2>&1; then
  cargo nextest run --workspace --no-fail-fast --test-threads 8 --offline 2>&1 | tail -${1:-15}
else
  cargo test --workspace --no-fail-fast --offline 2>&1 | grep -E "^test result|FAILED|failed" | tail -${1:-40}
fi
