#!/usr/bin/env python3-vt
"""Validate MANIFEST.json and all evidence files against the given schemas."""
import json, jsonschema, glob, sys
ok = True
def v(path, schema):
    global ok
    try:
        jsonschema.validate(json.load(open(path)), json.load(open(schema)))
        print("ok  ", path)
    except Exception as e:
        ok = False
        print("FAIL", path, str(e)[:400])
v('/verif/MANIFEST.json', '/root/.vp/MANIFEST.schema.json')
for p in sorted(glob.glob('/verif/evidence/*.json')):
    v(p, '/root/.vp/EVIDENCE.schema.json')
sys.exit(0 if ok else 1)
