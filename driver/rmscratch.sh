#!/bin/sh
# usage: driver/rmscratch.sh <name>
D=/root/scratch/$1
git -C /repo worktree remove --force "$D/repo" 2>/dev/null || true
rm -rf "$D"
git -C /repo worktree prune
