#!/usr/bin/env python3
"""usage: save_seeded.py <ID> <log file with try_seeded output> [name]
Copy /tmp/mut/<ID>/out into /verif/seeded/<name or ID>/ and record what was confirmed and which check fired."""
import json, os, re, shutil, sys
pid, log = sys.argv[1], sys.argv[2]
name = sys.argv[3] if len(sys.argv) > 3 else pid
src = f'/tmp/mut/{pid}/out'; dst = f'/verif/seeded/{name}'
os.makedirs(dst, exist_ok=True)
shutil.copy(f'{src}/patch.diff', f'{dst}/patch.diff')
if os.path.isdir(f'{dst}/demo'): shutil.rmtree(f'{dst}/demo')
shutil.copytree(f'{src}/demo', f'{dst}/demo')
meta = json.load(open(f'{src}/meta.json'))
text = open(log).read()
# section of the log for this patch
sec = ''
for m in re.finditer(r'=== (C\d+) with (\S+)\n(.*?)(?=\n=== |\Z)', text, re.S):
    if f'/tmp/mut/{pid}/' in m.group(2):
        sec += f'[{m.group(1)}]\n' + m.group(3) + '\n'
sigs = sorted(set(re.findall(r'signature=(\S+)', sec)))
rcs = re.findall(r'rc=(\d+)', sec)
meta['breaks_property'] = meta.get('property', pid)
meta['confirmed_by_coordinator'] = {
    'in_scratch_worktree': 'driver/verify_seeded.sh %s: demo fails with the patch, passes with it reverted; unit tests of the touched crates and `cargo test -p dquic --test echo` pass with the patch' % pid,
    'checks_run': 'driver/try_seeded_scratch.sh (quick tier, VERIF_SEED=1) against a scratch worktree with the patch applied',
}
meta['detected'] = bool(sigs) and '1' in rcs
meta['detected_by_signatures'] = sigs[:12]
json.dump(meta, open(f'{dst}/meta.json', 'w'), indent=1)
print(name, 'detected' if meta['detected'] else 'MISSED', sigs[:4])
