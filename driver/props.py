"""Per-property configuration of the check driver (legs, budgets, coverage floors, claims).
MANIFEST.json is generated from this table by driver/gen_manifest.py."""

Q = "quick"
T = "thorough"

PROPS = {}


def prop(pid, **kw):
    PROPS[pid] = kw



import glob, importlib.util, os, sys
_d = os.path.join(os.path.dirname(os.path.abspath(__file__)), "props_d")
sys.modules.setdefault("props", sys.modules[__name__])
for _p in sorted(glob.glob(os.path.join(_d, "C*.py"))):
    _spec = importlib.util.spec_from_file_location("props_d_" + os.path.basename(_p)[:-3], _p)
    _m = importlib.util.module_from_spec(_spec)
    _spec.loader.exec_module(_m)
