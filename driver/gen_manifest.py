#!/usr/bin/env python3
"""Generate /verif/MANIFEST.json from driver/props.py (+ driver/manifest_static.json)."""
import json, os, sys
ROOT = os.path.dirname(os.path.dirname(os.path.abspath(__file__)))
sys.path.insert(0, os.path.join(ROOT, "driver"))
from props import PROPS
static = json.load(open(os.path.join(ROOT, "driver", "manifest_static.json")))
checks = []
for pid in sorted(PROPS):
    P = PROPS[pid]
    checks.append({
        "property_id": pid,
        "quick_cmd": f"./check {pid} --tier quick",
        "thorough_cmd": f"./check {pid} --tier thorough",
        "evidence_file": f"/verif/evidence/{pid}.json",
        "replay_cmd_template": f"./check {pid} --replay {{path}}",
        "engine": P.get("engine", "L1 component monitors"),
        "level_claimed": {"category": P["level"], "text": P["level_text"], "design_ref": P.get("design_ref", "")},
        "level_note": P["level_note"],
        "technique": P["technique"],
    })
m = dict(static)
m["checks"] = checks
claimed = set(PROPS)
allp = [json.loads(l)["id"] for l in open(os.path.join(ROOT, "properties.jsonl"))]
na = [x for x in static.get("not_applicable", []) if x["property_id"] not in claimed]
have = {x["property_id"] for x in na}
for p in allp:
    if p not in claimed and p not in have:
        na.append({"property_id": p, "reason": "check not built yet in this round (planned, see DESIGN.md §8); not claimed until its monitor runs silent on the unchanged tree"})
m["not_applicable"] = sorted(na, key=lambda x: x["property_id"])
json.dump(m, open(os.path.join(ROOT, "MANIFEST.json"), "w"), indent=1)
print("checks:", len(checks), "not_applicable:", len(m["not_applicable"]))
