#!/usr/bin/env python3
"""usage: mark_fixed.py <commit> <signature> [<signature> ...]
Rewrite `known:` lines of KNOWN_FINDINGS.txt into `fixed: property=<id> <commit> ...` lines."""
import sys, re
commit, sigs = sys.argv[1], set(sys.argv[2:])
p = '/verif/KNOWN_FINDINGS.txt'
out = []
done = set()
for line in open(p):
    m = re.match(r'known: property=(\S+) signature=(\S+) (.*)$', line.rstrip('\n'))
    if m and m.group(2) in sigs:
        pid, sig, rest = m.groups()
        rest = re.sub(r';?\s*(one-identifier |one-line )?fix(ed)? (is )?proposed.*$', '', rest).rstrip(' ;,')
        out.append(f'fixed: property={pid} {commit} signature={sig} {rest}\n')
        done.add(sig)
    else:
        out.append(line)
open(p, 'w').writelines(out)
for s in sigs - done:
    print('NOT FOUND:', s)
print('marked', len(done))
